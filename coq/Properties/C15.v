(* C15 — Antenna axes stay in range, never outrun the commanded rate, stop on demand.
   Statements only; every proof is `exact` of a lemma in Proofs/AaxProofs.v (Proofs/AaxStep.v,
   Proofs/AaxArith.v).

   Setting.  [c : cfg] is an axis configuration (operating range lo..hi, maximum rate, stow
   positions, microdegrees), [wf_cfg c]: lo <= hi, 0 <= vmax, stow positions inside the range.
   [reach c p0 st]: st is reachable from MasterAxisStatus.__init__ at start position p0 by ANY
   finite history of events, in any order and interleaving:
     ECmd cnt cm   an accepted mode command (parameters within the validated limits: [accepted]),
     ETick id k    one loop iteration of command thread id with elapsed time k/1024 s, k >= 0,
     EUpdate       update_status,   EFeed   a write of next_pos/ptState/p_Bahn by the pointing
     subsystem (any values),   EOffAbs/EOffRel   position-offset parameter commands.
   Assumptions (not proved, see notes/C15.md): one loop iteration and the part of a handler before
   its loop are atomic; int(round(abs(rate)*dt)) = disp rate k on the grid dt = k/1024 s. *)
From DS Require Import Base.Prelude Model.AaxModel Proofs.AaxArith Proofs.AaxStep Proofs.AaxProofs.
From DS Require Import Proofs.AaxTrack.

(* the position stays inside the operating range *)
Theorem C15_range : forall c p0, wf_cfg c -> in_range c p0 -> forall st, reach c p0 st ->
  lo c <= p (axs st) <= hi c.
Proof. exact range_all. Qed.
Print Assumptions C15_range.

(* the position changes only in a loop iteration of a live command thread, and only while the axis
   is active (axis_state = 3) and not stowed *)
Theorem C15_moves_only_if_active_unstowed : forall c p0, wf_cfg c -> in_range c p0 ->
  forall st e, reach c p0 st -> ev_ok c st e ->
  p (axs (step c st e)) <> p (axs st) ->
  ast (axs st) = 3 /\ stowed (axs st) = false /\
  exists id k m, e = ETick id k /\ In m (movers st) /\ mover_id m = id.
Proof. exact moves_only_if_active_unstowed. Qed.
Print Assumptions C15_moves_only_if_active_unstowed.

(* per iteration the position moves by at most the displacement of the commanded rate
   (positioning threads; tracking thread while positioning on the first point) ... *)
Theorem C15_rate_commanded : forall c p0, wf_cfg c -> in_range c p0 ->
  forall st id cnt kd tgt rate k, reach c p0 st -> 0 <= k ->
  In (MMove id cnt kd tgt rate) (movers st) ->
  Z.abs (p (axs (step c st (ETick id k))) - p (axs st)) <= disp rate k.
Proof. exact rate_commanded. Qed.
Print Assumptions C15_rate_commanded.

Theorem C15_rate_track_positioning : forall c p0, wf_cfg c -> in_range c p0 ->
  forall st id cnt rate fin k, reach c p0 st -> 0 <= k ->
  In (MTrack id cnt rate fin) (movers st) -> ptst (axs st) = 2 ->
  Z.abs (p (axs (step c st (ETick id k))) - p (axs st)) <= disp rate k.
Proof. exact rate_track_positioning. Qed.
Print Assumptions C15_rate_track_positioning.

(* ... and in every case (tracking included) by at most that of the axis' maximum rate *)
Theorem C15_rate_axis_max : forall c p0, wf_cfg c -> in_range c p0 ->
  forall st id k, reach c p0 st -> 0 <= k ->
  Z.abs (p (axs (step c st (ETick id k))) - p (axs st)) <= disp (vmax c) k.
Proof. exact rate_axis_max. Qed.
Print Assumptions C15_rate_axis_max.

(* the displacement is rate x dt up to half a microdegree: 2*1024*d <= 2*|rate|*k + 1024 *)
Theorem C15_rate_rounding : forall rate k, 0 <= k ->
  0 <= disp rate k /\ 2 * 1024 * disp rate k <= 2 * (Z.abs rate * k) + 1024.
Proof. exact disp_spec. Qed.
Print Assumptions C15_rate_rounding.

(* a positioning thread never overshoots or backs off from its target; while its command is the
   current one and the axis is active and unstowed the remaining distance shrinks by exactly the
   displacement *)
Theorem C15_no_overshoot : forall c p0, wf_cfg c -> in_range c p0 ->
  forall st id cnt kd tgt rate k, reach c p0 st -> 0 <= k ->
  In (MMove id cnt kd tgt rate) (movers st) ->
  Z.abs (tgt - p (axs (step c st (ETick id k)))) <= Z.abs (tgt - p (axs st)).
Proof. exact no_overshoot. Qed.
Print Assumptions C15_no_overshoot.

Theorem C15_progress : forall c p0, wf_cfg c -> in_range c p0 ->
  forall st id cnt kd tgt rate k, reach c p0 st -> 0 <= k ->
  In (MMove id cnt kd tgt rate) (movers st) -> current st cnt ->
  Z.abs (tgt - p (axs (step c st (ETick id k)))) = Z.max 0 (Z.abs (tgt - p (axs st)) - disp rate k).
Proof. exact progress. Qed.
Print Assumptions C15_progress.

(* every positioning target (preset, relative preset, slew, drive to stow) of an accepted command
   lies inside the operating range, and its rate within the axis maximum *)
Theorem C15_targets_in_range : forall c p0, wf_cfg c -> in_range c p0 ->
  forall st id cnt kd tgt rate, reach c p0 st -> In (MMove id cnt kd tgt rate) (movers st) ->
  lo c <= tgt <= hi c /\ Z.abs rate <= vmax c.
Proof. exact targets_in_range. Qed.
Print Assumptions C15_targets_in_range.

(* exact arrival: when an iteration's displacement covers the remaining distance the position is
   exactly the target, the velocity 0, the executed-command fields report this command (counter,
   mode, answer 1 = executed), drive-to-stow leaves the axis stowed, and the thread has ended *)
Theorem C15_arrival_exact : forall c p0, wf_cfg c -> in_range c p0 ->
  forall st id cnt kd tgt rate k, reach c p0 st -> 0 <= k ->
  In (MMove id cnt kd tgt rate) (movers st) -> current st cnt ->
  Z.abs (tgt - p (axs st)) <= disp rate k ->
  let st' := step c st (ETick id k) in
  p (axs st') = tgt /\ v (axs st') = 0 /\
  ecnt (axs st') = cnt /\ ecmd (axs st') = kind_code kd /\ eans (axs st') = 1 /\
  (kd = KStow -> stowed (axs st') = true) /\
  ~ In id (map mover_id (movers st')).
Proof. exact arrival_exact. Qed.
Print Assumptions C15_arrival_exact.

(* a positioning command that is not superseded reaches its target: over any run of iterations of
   its thread whose displacements add up to the distance *)
Theorem C15_arrival_eventually : forall c p0, wf_cfg c -> in_range c p0 ->
  forall ks st id cnt kd tgt rate, reach c p0 st -> Forall (fun k => 0 <= k) ks ->
  In (MMove id cnt kd tgt rate) (movers st) -> current st cnt ->
  Z.abs (tgt - p (axs st)) <= zsum_disp rate ks -> ks <> [] ->
  let st' := run c st (ticks id ks) in
  p (axs st') = tgt /\ v (axs st') = 0 /\
  ecnt (axs st') = cnt /\ ecmd (axs st') = kind_code kd /\ eans (axs st') = 1 /\
  ~ In id (map mover_id (movers st')).
Proof. exact arrival_eventually. Qed.
Print Assumptions C15_arrival_eventually.

(* supersession within one iteration.  Full statement of the property ("a stop or a newer motion
   command ends the previous motion within one update") holds for commands whose counter differs
   from the running command's counter; with EQUAL counters it fails (C15_same_counter_refuted):
     forall ..., supersedes c cm = true -> (no hypothesis on cnt') -> ... motion ends.       *)
Theorem C15_superseded_within_one_tick_except_same_counter : forall c p0, wf_cfg c -> in_range c p0 ->
  forall es st id cnt kd tgt rate cnt' cm k,
  reach c p0 st -> In (MMove id cnt kd tgt rate) (movers st) ->
  supersedes c cm = true -> cnt' <> cnt -> accepted c (axs st) cm ->
  let st1 := step c st (ECmd cnt' cm) in
  all_ok c st1 es -> Forall (quiet id cnt) es ->
  let st2 := run c st1 es in
  let st3 := step c st2 (ETick id k) in
  p (axs st3) = p (axs st2) /\ v (axs st3) = 0 /\ ~ In id (map mover_id (movers st3)).
Proof. exact stop_or_newer_command_ends_motion. Qed.
Print Assumptions C15_superseded_within_one_tick_except_same_counter.

(* the same for the tracking thread: a stop / preset / relative preset / slew (they leave the
   trajectory state different from "tracking") whose counter differs from the thread's ends tracking
   within one iteration of that thread; uses the invariant that at most one tracking thread exists *)
Theorem C15_tracking_superseded_within_one_tick_except_same_counter :
  forall c p0, wf_cfg c -> in_range c p0 ->
  forall es st id cnt rate fin cnt' cm k,
  reach c p0 st -> In (MTrack id cnt rate fin) (movers st) ->
  ends_tracking c cm = true -> cnt <> Some cnt' -> accepted c (axs st) cm ->
  let st1 := step c st (ECmd cnt' cm) in
  all_ok c st1 es -> Forall (quiet_t id cnt) es ->
  let st2 := run c st1 es in
  let st3 := step c st2 (ETick id k) in
  p (axs st3) = p (axs st2) /\ v (axs st3) = 0 /\ pta (axs st3) = false /\
  ~ In id (map mover_id (movers st3)).
Proof. exact stop_or_newer_command_ends_tracking. Qed.
Print Assumptions C15_tracking_superseded_within_one_tick_except_same_counter.

Theorem C15_superseded_move_one_tick : forall c p0, wf_cfg c -> in_range c p0 ->
  forall st id cnt kd tgt rate k, reach c p0 st ->
  In (MMove id cnt kd tgt rate) (movers st) -> cur (axs st) <> Some cnt ->
  let st' := step c st (ETick id k) in
  p (axs st') = p (axs st) /\ v (axs st') = 0 /\ ~ In id (map mover_id (movers st')).
Proof. exact superseded_move_one_tick. Qed.
Print Assumptions C15_superseded_move_one_tick.

Theorem C15_superseded_track_one_tick : forall c p0, wf_cfg c -> in_range c p0 ->
  forall st id cnt rate fin k, reach c p0 st ->
  In (MTrack id cnt rate fin) (movers st) -> cnt <> cur (axs st) -> traj (axs st) <> 7 ->
  let st' := step c st (ETick id k) in
  p (axs st') = p (axs st) /\ v (axs st') = 0 /\ pta (axs st') = false /\
  ~ In id (map mover_id (movers st')).
Proof. exact superseded_track_one_tick. Qed.
Print Assumptions C15_superseded_track_one_tick.

Theorem C15_command_supersedes : forall c st cnt cm, supersedes c cm = true ->
  cur (axs (step c st (ECmd cnt cm))) = Some cnt /\
  (ends_tracking c cm = true -> traj (axs (step c st (ECmd cnt cm))) <> 7).
Proof. exact command_supersedes. Qed.
Print Assumptions C15_command_supersedes.

(* limit and rate warning bits after update_status agree with position and velocity; in every
   reachable state the final-limit and rate-limit warnings are off *)
Theorem C15_limit_bits_agree : forall c p0, wf_cfg c -> in_range c p0 ->
  forall st, reach c p0 st ->
  let s' := axs (step c st EUpdate) in
  pre_dn s' = (p (axs st) =? lo c) /\ fin_dn s' = false /\
  pre_up s' = (p (axs st) =? hi c) /\ fin_up s' = false /\ rate_lim s' = false /\
  p s' = p (axs st) /\ v s' = v (axs st).
Proof. exact limit_bits_agree. Qed.
Print Assumptions C15_limit_bits_agree.

Theorem C15_limit_bits_as_coded : forall c s,
  let s' := update_status c s in
  pre_dn s' = (p s <=? lo c) /\ fin_dn s' = (p s <? lo c) /\
  pre_up s' = (hi c <=? p s) /\ fin_up s' = (hi c <? p s) /\
  rate_lim s' = (vmax c <? Z.abs (v s)).
Proof. exact update_status_bits_general. Qed.
Print Assumptions C15_limit_bits_as_coded.

Theorem C15_velocity_bounded : forall c p0, wf_cfg c -> in_range c p0 -> forall st, reach c p0 st ->
  Z.abs (v (axs st)) <= vmax c.
Proof. exact velocity_bounded. Qed.
Print Assumptions C15_velocity_bounded.

(* non-vacuity: the shipped azimuth and elevation configurations are well formed; a concrete
   history (activate, preset 180 -> 181 deg at 0.5 deg/s, seven iterations of 0.25 s) reaches a
   state meeting every hypothesis of C15_arrival_exact *)
Example C15_ex_configs : (wf_cfg az_cfg /\ in_range az_cfg 180000000) /\
                         (wf_cfg el_cfg /\ in_range el_cfg 90000000).
Proof. exact (conj az_wf el_wf). Qed.
Example C15_ex_arrival_hypotheses :
  let st := run az_cfg (init az_cfg 180000000) ex_hist in
  reach az_cfg 180000000 st /\ In (MMove 1 2 KAbs 181000000 500000) (movers st) /\
  current st 2 /\ Z.abs (181000000 - p (axs st)) <= disp 500000 256 /\ p (axs st) = 180875000.
Proof. exact ex_arrival_hyps. Qed.

(* known findings (witnesses by computation) *)
Theorem C15_same_counter_refuted :
  let st1 := run az_cfg (init az_cfg 180000000)
                 [ECmd 1 CActive; ETick 0 0; ECmd 5 (CAbs 181000000 500000); ETick 1 0; ETick 1 256] in
  let st2 := run az_cfg st1 [ECmd 5 CStop; ETick 2 0; ETick 1 256] in
  all_ok az_cfg (init az_cfg 180000000)
         [ECmd 1 CActive; ETick 0 0; ECmd 5 (CAbs 181000000 500000); ETick 1 0; ETick 1 256;
          ECmd 5 CStop; ETick 2 0; ETick 1 256] /\
  ecmd (axs st2) = 7 /\ eans (axs st2) = 1 /\
  p (axs st2) = p (axs st1) + 125000 /\ v (axs st2) = 500000 /\ In 1 (map mover_id (movers st2)).
Proof. exact same_counter_stop_refuted. Qed.
Print Assumptions C15_same_counter_refuted.

Theorem C15_track_rate_stale_refuted :
  let es := [ECmd 1 CActive; ETick 0 0; ECmd 2 (CTrack 500000); ETick 1 0;
             EFeed (Some 185000000) 2 185000000; ECmd 3 (CTrack 100000); ETick 2 0] in
  let st1 := run az_cfg (init az_cfg 180000000) es in
  let st2 := step az_cfg st1 (ETick 1 1024) in
  all_ok az_cfg (init az_cfg 180000000) (es ++ [ETick 1 1024]) /\
  ecnt (axs st1) = 3 /\ ecmd (axs st1) = 8 /\ eans (axs st1) = 1 /\
  p (axs st2) - p (axs st1) = 500000 /\ disp 100000 1024 = 100000.
Proof. exact track_rate_stale_refuted. Qed.
Print Assumptions C15_track_rate_stale_refuted.
