(* placeholder, replaced below *)
From DS Require Import Base.Prelude Model.AaxModel.
