(* C12 — Actuator motion is bounded, monotone, exact on arrival and always terminates.
   Statements only; proofs are `exact` of lemmas in Proofs/UsdMotion.v and Proofs/UsdHistory.v.
   The model (Model/UsdModel.v) follows usd.py with fixes/06 (arrival at the current position)
   applied.  [calc_position d now u] is one iteration of the positioning thread for one unit with
   rounded displacement d = int(round(frequency * (128/resolution) * elapsed)) >= 0; the theorems
   quantify over every d, so they cover every elapsed time; [tick k now u] is the same iteration
   for elapsed = k/1024 s, where d is computed exactly. *)
From DS Require Import Base.Prelude Base.Bits Model.Utils Model.UsdModel Spec.UsdSpec.
From DS Require Import Proofs.UsdMotion Proofs.UsdInv Proofs.UsdRefine Proofs.UsdHistory.

(* The position stays inside the mechanical range after any history of commands (any code, any
   parameter bytes) and time steps (any displacement >= 0). *)
Theorem C12_range : forall idx u, 0 <= idx < 32 -> greachable idx u ->
  min_position <= current_position u <= max_position.
Proof. exact range_always. Qed.
Print Assumptions C12_range.

(* one iteration never leaves the range, whatever the state's other attributes *)
Theorem C12_range_step : forall d now u, pos_ok u -> pos_ok (calc_position d now u).
Proof. exact calc_range. Qed.
Print Assumptions C12_range_step.

(* The position changes only while a velocity, positioning or rotation command is active ... *)
Theorem C12_idle_still : forall d now u, vel_idle u -> cmd_position u = None ->
  current_position (calc_position d now u) = current_position u /\
  running (calc_position d now u) = false /\
  cmd_position (calc_position d now u) = None /\ vel_idle (calc_position d now u).
Proof. exact calc_idle. Qed.
Print Assumptions C12_idle_still.

(* ... and no command moves it (soft_reset reboots the unit: position counter 0). *)
Theorem C12_commands_do_not_move : forall c b p u, 0 <= b -> bytes p -> Inv u ->
  current_position (fst (handle c b p u)) = current_position u \/
  (c = 1 /\ p = [] /\ current_position (fst (handle c b p u)) = 0).
Proof. exact commands_do_not_move. Qed.
Print Assumptions C12_commands_do_not_move.

(* Per step the position moves by at most the rounded displacement ... *)
Theorem C12_step_bound : forall d now u, 0 <= d -> pos_ok u ->
  Z.abs (current_position (calc_position d now u) - current_position u) <= d.
Proof. exact calc_step_bound. Qed.
Print Assumptions C12_step_bound.

(* ... which on the time grid is frequency x (128 / resolution) x k/1024 rounded half-even ... *)
Theorem C12_step_bound_grid : forall k now u, Inv u -> 0 <= k ->
  Z.abs (current_position (tick k now u) - current_position u)
  <= round_half_even (frequency_of u * (128 / resolution u) * k) 1024.
Proof. exact step_bound_grid. Qed.
Print Assumptions C12_step_bound_grid.

(* ... in the direction of the velocity / toward the target, never past the target. *)
Theorem C12_direction_velocity : forall d now u v, 0 <= d -> pos_ok u ->
  velocity u = Some v -> v <> 0 ->
  0 <= sign v * (current_position (calc_position d now u) - current_position u).
Proof. exact calc_direction_velocity. Qed.
Print Assumptions C12_direction_velocity.

Theorem C12_direction_target : forall d now u tgt, 0 <= d -> pos_ok u ->
  vel_idle u -> cmd_position u = Some tgt ->
  let p := current_position u in let p' := current_position (calc_position d now u) in
  0 <= sign (tgt - p) * (p' - p) /\ Z.abs (tgt - p') <= Z.abs (tgt - p) /\
  0 <= sign (tgt - p) * (tgt - p').
Proof. exact calc_direction_target. Qed.
Print Assumptions C12_direction_target.

(* An acknowledged positioning command makes its target the heading of the unit. *)
Theorem C12_absolute_accepted : forall b x y z w u, 0 <= b -> bytes [x; y; z; w] -> Inv u ->
  delayed_execution u = false -> running u = false -> vel_idle u ->
  let r := handle 48 b [x; y; z; w] u in
  snd r = OReply ack /\ heading (fst r) (reference_position u + s32 x y z w).
Proof. exact absolute_accepted. Qed.
Print Assumptions C12_absolute_accepted.

Theorem C12_relative_accepted : forall b x y z w u, 0 <= b -> bytes [x; y; z; w] -> Inv u ->
  delayed_execution u = false -> running u = false -> vel_idle u ->
  let r := handle 49 b [x; y; z; w] u in
  snd r = OReply ack /\ heading (fst r) (current_position u + s32 x y z w).
Proof. exact relative_accepted. Qed.
Print Assumptions C12_relative_accepted.

(* Exact arrival and termination: for a target inside the range, once the displacements (each at
   least one unit) add up to the distance — a distance of 0 included — the position IS the
   target, and after one more iteration (and for ever after) running is cleared, the target is
   dropped and the position stays. *)
Theorem C12_arrival : forall u tgt ds, min_position <= tgt <= max_position ->
  heading u tgt -> Forall (fun dn => 1 <= fst dn) ds ->
  Z.abs (tgt - current_position u) <= total ds ->
  current_position (ticks ds u) = tgt /\
  forall d now more, arrived (ticks more (calc_position d now (ticks ds u))) tgt.
Proof. exact arrival. Qed.
Print Assumptions C12_arrival.

(* until then the unit reports running and the distance shrinks by exactly d per step *)
Theorem C12_under_way : forall u tgt d now, min_position <= tgt <= max_position ->
  heading u tgt -> 1 <= d -> d < Z.abs (tgt - current_position u) ->
  running (calc_position d now u) = true /\
  Z.abs (tgt - current_position (calc_position d now u)) = Z.abs (tgt - current_position u) - d.
Proof. exact under_way. Qed.
Print Assumptions C12_under_way.

(* the defect repaired by fixes/06: commanding the present position completes at once *)
Theorem C12_target_equal_current : forall b x y z w u d now, 0 <= b -> bytes [x; y; z; w] ->
  Inv u -> delayed_execution u = false -> running u = false -> vel_idle u ->
  reference_position u + s32 x y z w = current_position u ->
  let r := handle 48 b [x; y; z; w] u in
  snd r = OReply ack /\ arrived (calc_position d now (fst r)) (current_position u).
Proof. exact target_equal_current. Qed.
Print Assumptions C12_target_equal_current.

(* Targets outside the range (and rotate, whose target is +-(max+1)): the unit goes to the limit,
   clamps and keeps running — the protocol's "out of scale" rotation. *)
Theorem C12_out_of_scale : forall d now u tgt, 0 <= d -> heading u tgt ->
  (tgt < min_position \/ max_position < tgt) ->
  let u' := calc_position d now u in
  heading u' tgt /\ running u' = true /\
  current_position u' = clamp (current_position u + sign (tgt - current_position u) * d).
Proof. exact out_of_scale_step. Qed.
Print Assumptions C12_out_of_scale.

(* Stop halts at once: from the very next iteration on the position is the one at the stop. *)
Theorem C12_stop_halts : forall u d now more,
  let u' := ticks more (calc_position d now (soft_stop u)) in
  current_position u' = current_position u /\
  running (calc_position d now (soft_stop u)) = false.
Proof. exact stop_halts. Qed.
Print Assumptions C12_stop_halts.

(* a broadcast stop (every unit of the line executes soft_stop) halts every unit *)
Theorem C12_broadcast_stop_halts : forall b us u, In u us ->
  In (soft_stop u) (bcast 17 b [] us) /\
  forall d now more,
    current_position (ticks more (calc_position d now (soft_stop u))) = current_position u /\
    running (calc_position d now (soft_stop u)) = false.
Proof. exact broadcast_stop_halts. Qed.
Print Assumptions C12_broadcast_stop_halts.

(* Busy refusal: while running, positioning and rotation are answered NAK and change nothing. *)
Theorem C12_busy_refusal : forall b p u c, 0 <= b -> bytes p -> Inv u ->
  running u = true -> delayed_execution u = false -> In c [48; 49] -> length p = 4%nat ->
  handle c b p u = (u, OReply nak).
Proof. exact busy_nak. Qed.
Print Assumptions C12_busy_refusal.

Theorem C12_busy_refusal_rotate : forall b x u, 0 <= b -> byte x -> Inv u -> running u = true ->
  handle 50 b [x] u = (u, OReply nak).
Proof. exact busy_nak_rotate. Qed.
Print Assumptions C12_busy_refusal_rotate.

(* Known finding (known/C12.txt, class positioning_acked_while_motion_pending): the hypothesis
   [vel_idle] inside [heading] cannot be dropped from C12_arrival.  The 'running' flag is refreshed by
   the positioning loop only, so a positioning sent right after a velocity command is acknowledged and
   then never approached.  Full statement without the hypothesis: every acknowledged positioning to a
   target inside the range ends at the target. *)
Theorem C12_arrival_refuted_motion_pending :
  let h := [ECmd 53 252 [0; 3; 232]; ECmd 48 252 [0; 0; 1; 244]; ETick 1024; ETick 1024; ETick 1024] in
  let r := run (usd_init 1, 1024) h in
  Forall wf_event h /\ nth 1 (snd r) None = Some (OReply ack) /\
  cmd_position (fst (fst r)) = Some 500 /\ current_position (fst (fst r)) = 192000 /\
  running (fst (fst r)) = true.
Proof. exact arrival_refuted_motion_pending. Qed.
Print Assumptions C12_arrival_refuted_motion_pending.

(* non-vacuity: a unit commanded to 1000 arrives exactly after 640 + 640 units of displacement *)
Example C12_ex_heading :
  let u := fst (handle 48 252 [0; 0; 3; 232] (usd_init 1)) in
  heading u 1000 /\ current_position (ticks [(640, 10); (640, 20)] u) = 1000 /\
  running (ticks [(640, 10); (640, 20)] u) = false /\
  running (ticks [(640, 10)] u) = true.
Proof. cbv zeta. unfold heading, pos_ok, vel_idle. vm_compute. intuition discriminate. Qed.

Example C12_ex_inv : Inv (usd_init 1).
Proof. apply inv_init. lia. Qed.

Example C12_ex_reachable : greachable 1
  (grun (usd_init 1) [GCmd 53 250 [0; 3; 232]; GTick 5000000 7; GTick 1 8]).
Proof. eexists. split; [|reflexivity]. repeat constructor; cbn; unfold byte; lia. Qed.

Example C12_ex_clamped :
  current_position (grun (usd_init 1) [GCmd 53 250 [0; 3; 232]; GTick 5000000 7; GTick 1 8])
  = max_position.
Proof. reflexivity. Qed.
