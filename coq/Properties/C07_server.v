(* C07, server part — `$system_stop%%%%%` arriving on a connection is answered with the value
   system_stop() returns and stops the server's request loops (the [Stop] action is the call of
   Server.stop, which shuts every socketserver down).  Statements only.

   [stop_answers E scall s]: in every device state, system_stop() returns the str s
   (C07's ledger part proves s = '$server_shutdown%%%%%' per simulator).
   [stop_block s] = [Call system_stop []; Send s] ++ [Stop] when s is the acknowledgement. *)
From DS Require Import Base.Prelude Model.SrvHandler Spec.SrvRelaySpec Proofs.SrvLists Proofs.SrvProofs Proofs.SrvTheorems Proofs.SrvExamples.

(* listening server, TCP: anywhere in the stream, any segmentation *)
Theorem C07_server_listen_stop :
  forall E sparse scall sendok s x y (e : E) segs,
  (forall k, sendok k = true) -> stop_answers E scall s -> encode_latin1 s = Some s ->
  Forall nonempty segs -> concat segs = x ++ stop_command ++ y ->
  exists a1 a2,
    actions_of (handle_tcp fixed E sparse scall sendok (init E e) (map Some segs))
      = a1 ++ stop_block s ++ a2.
Proof. exact listen_stop. Qed.
Print Assumptions C07_server_listen_stop.

(* listening server, UDP: anywhere in the datagram *)
Theorem C07_server_udp_stop :
  forall E sparse scall sendok s x y (e : E),
  (forall k, sendok k = true) -> stop_answers E scall s -> encode_latin1 s = Some s ->
  exists a1 a2,
    actions_of (listen_udp fixed E sparse scall sendok e (x ++ stop_command ++ y))
      = a1 ++ stop_block s ++ a2.
Proof. exact udp_stop. Qed.
Print Assumptions C07_server_udp_stop.

(* sending server: the command received as one whole chunk, after any earlier traffic *)
Theorem C07_server_send_stop_partial :
  forall E scall sendok s r1 r2 qs (e : E),
  (forall k, sendok k = true) -> stop_answers E scall s -> encode_latin1 s = Some s ->
  Forall live_chunk r1 ->
  exists a1 a2,
    actions_of (send_handle fixed E scall sendok None e (r1 ++ RChunk stop_command :: r2) qs)
      = a1 ++ stop_block s ++ a2.
Proof. exact send_handle_stop. Qed.
Print Assumptions C07_server_send_stop_partial.
(* Full statement (not provable: the code recognises a custom command on a sending connection
   only when one recv chunk is exactly `$...%%%%%`):
     forall chunks, concat chunks = x ++ stop_command ++ y -> ... a1 ++ stop_block s ++ a2.
   Witnesses: *)
Theorem C07_server_send_split_refuted :
  exists c1 c2, c1 ++ c2 = stop_command /\ c1 <> [] /\ c2 <> [] /\
    calls (actions_of (ex_send [RChunk c1; RChunk c2])) = [].
Proof. exact send_split_chunk_ignored. Qed.
Print Assumptions C07_server_send_split_refuted.
Theorem C07_server_send_embedded_refuted :
  calls (actions_of (ex_send [RChunk (122 :: stop_command)])) = [].
Proof. exact send_embedded_chunk_ignored. Qed.
Print Assumptions C07_server_send_embedded_refuted.

(* the acknowledgement makes the handler call Server.stop *)
Theorem C07_server_ack_stops :
  stop_block shutdown_ack = [Call stop_name []; Send shutdown_ack; Stop].
Proof. exact stop_block_ack. Qed.
Print Assumptions C07_server_ack_stops.

(* non-vacuity *)
Example C07_server_ex_answers : stop_answers unit ex_scall shutdown_ack.
Proof. exact ex_stop_answers. Qed.
Example C07_server_ex_send :
  actions_of (ex_send [RChunk stop_command]) =
    [Subscribe; Call stop_name []; Send shutdown_ack; Stop; Unsubscribe].
Proof. exact send_whole_chunk_stops. Qed.
