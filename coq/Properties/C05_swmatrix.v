(* C05, switch matrix part (code with fixes/23 applied) — register catalogue: the IF switch
   configuration; write `set IF_switch_config=<tok>` CR, acknowledged with ACK CR LF, refused with
   NACK CR LF; read `get IF_switch_config`; encoding `<k>:<name>` CR LF.  Statements only. *)
From DS Require Import Base.Prelude Model.SmbCommon Model.SmbSwMatrix Proofs.SmbCommon Proofs.SmbSwMatrix.

(* for EVERY parameter token (non-empty, word characters): the line is the set method applied to
   the token; it is acknowledged iff int(tok) is one of the four configurations *)
Theorem C05_swmatrix_write_semantics : forall d tok, word_token tok ->
  sw_exec d (sw_write tok) = sw_set d tok.
Proof. exact sw_write_exec. Qed.
Print Assumptions C05_swmatrix_write_semantics.

Theorem C05_swmatrix_write_cases : forall d tok,
  (sw_set d tok = (d, OReply (NACK ++ CRLF)) /\
     (py_int tok = None \/ exists v, py_int tok = Some v /\ ~ In v sw_configs)) \/
  (exists v, py_int tok = Some v /\ In v sw_configs /\ sw_set d tok = (mkM v, OReply (ACK ++ CRLF))).
Proof. exact sw_set_cases. Qed.
Print Assumptions C05_swmatrix_write_cases.

(* acknowledged write of v, ANY history of lines none of which is acknowledged with ACK (queries,
   refused writes, garbage), then the read-back returns v in the protocol's encoding *)
Theorem C05_swmatrix_readback : forall s tok v ls q, sw_idle s = true -> word_token tok ->
  py_int tok = Some v -> In v sw_configs -> Forall no_lf ls -> In q sw_queries ->
  Forall (fun o => o <> OReply (ACK ++ CRLF))
         (snd (exec_lines sw_exec (fst (sw_exec (ldev s) (sw_write tok))) ls)) ->
  exists s' mid,
    sw_run s (lines_bytes (sw_write tok :: ls) ++ q ++ [LF]) =
      (s', line_outs (sw_write tok) (OReply (ACK ++ CRLF)) ++ mid ++ line_outs q (OReply (sw_enc v))).
Proof. exact sw_readback_bytes. Qed.
Print Assumptions C05_swmatrix_readback.

(* refused: ANY line whose outcome is not ACK (NACK, no reply, exception, a get) leaves the device
   state unchanged ... *)
Theorem C05_swmatrix_not_acked_unchanged : forall d l d' o,
  sw_exec d l = (d', o) -> o <> OReply (ACK ++ CRLF) -> d' = d.
Proof. exact sw_not_acked_unchanged. Qed.
Print Assumptions C05_swmatrix_not_acked_unchanged.

(* ... hence every read-back of the catalogue is the same before and after *)
Theorem C05_swmatrix_refused_readbacks : forall s l q, sw_idle s = true -> no_lf l -> In q sw_queries ->
  last (snd (sw_run s (l ++ [LF]))) OFalse <> OReply (ACK ++ CRLF) ->
  snd (sw_run (fst (sw_run s (l ++ [LF]))) (q ++ [LF])) = snd (sw_run s (q ++ [LF])).
Proof. exact sw_refused_all_readbacks. Qed.
Print Assumptions C05_swmatrix_refused_readbacks.

(* an out-of-table or non-numeric value is refused with NACK *)
Theorem C05_swmatrix_refused_nack : forall d tok, word_token tok ->
  (py_int tok = None \/ exists v, py_int tok = Some v /\ ~ In v sw_configs) ->
  sw_exec d (sw_write tok) = (d, OReply (NACK ++ CRLF)).
Proof. exact sw_write_refused. Qed.
Print Assumptions C05_swmatrix_refused_nack.

Example C05_swmatrix_ex_tokens :
  word_token [57] /\ py_int [57] = Some 9 /\ ~ In 9 sw_configs /\
  word_token [48; 95; 51] /\ py_int [48; 95; 51] = Some 3 /\ In 3 sw_configs.
Proof.
  repeat split; try discriminate; try reflexivity; cbn; intuition (subst; try reflexivity; try discriminate).
Qed.
Example C05_swmatrix_ex :
  snd (sw_run sw_start (lines_bytes [sw_write [51]; sw_write [57]; SW_GET ++ [CR]])) =
  line_outs (sw_write [51]) (OReply (ACK ++ CRLF)) ++ line_outs (sw_write [57]) (OReply (NACK ++ CRLF))
  ++ line_outs (SW_GET ++ [CR]) (OReply (sw_enc 3)).
Proof. reflexivity. Qed.
