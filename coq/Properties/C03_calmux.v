(* C03, calmux part — the command framer of simulators/calmux returns to idle after any input and
   never waits for ever.  Statements only; proofs in Proofs/SmaFramer.v, Proofs/SmaCalmuxProofs.v.
   cm_step / cm_run: Model/SmaCalmux.v (System.parse, one byte per step). *)
From DS Require Import Base.Prelude Model.SmaCommon Model.SmaCalmux Proofs.SmaFramer.
From DS Require Import Proofs.SmaCalmuxProofs.

(* after ANY byte history from ANY state, a terminator (\n or \r) leaves the framer idle *)
Theorem C03_calmux_resync_on_terminator : forall (s : cm_state) (bs : list Z) (t : Z),
  cm_is_tail t = true -> cm_idle (fst (cm_run s (bs ++ [t]))) = true.
Proof. exact (resync_on_terminator cm_fcfg cm_fcfg_max cm_tail_not_hdr cm_exec). Qed.
Print Assumptions C03_calmux_resync_on_terminator.

(* bounded length: from every reachable state, any 7 bytes (max_msg_length) contain a non-empty
   prefix after which the framer is idle — it cannot wait for a terminator for ever *)
Theorem C03_calmux_resync_within_maxlen : forall (s : cm_state) (bs : list Z),
  cm_reachable s -> 7 <= Z.of_nat (length bs) ->
  exists p q, bs = p ++ q /\ p <> [] /\ cm_idle (fst (cm_run s p)) = true.
Proof.
  exact (fun s bs Hr => resync_within_maxlen cm_fcfg cm_fcfg_max cm_tail_not_hdr cm_exec s bs
                          (proj1 (cm_reachable_sinv s Hr))).
Qed.
Print Assumptions C03_calmux_resync_within_maxlen.

(* the overflowing byte (7th character, not a terminator) raises ValueError and resets *)
Theorem C03_calmux_overflow_resets : forall (s : cm_state) (b : Z),
  Z.of_nat (length (buf s)) = 6 -> cm_is_tail b = false ->
  cm_step s b = (Build_sstate [] (dev s), OValueError).
Proof. exact (overflow_resets cm_fcfg cm_fcfg_max cm_tail_not_hdr cm_exec). Qed.
Print Assumptions C03_calmux_overflow_resets.

(* idle discards bytes that cannot start a command: state unchanged, parse returns False *)
Theorem C03_calmux_idle_discards : forall (s : cm_state) (b : Z),
  cm_idle s = true -> cm_is_hdr b = false -> cm_step s b = (s, OFalse).
Proof. exact (idle_discards cm_fcfg cm_fcfg_max cm_tail_not_hdr cm_exec). Qed.
Print Assumptions C03_calmux_idle_discards.

(* after idle, framing behaves as in the initial state: same framer events for the same bytes,
   and the state is the initial framing state paired with the current registers *)
Theorem C03_calmux_fresh_after_idle : forall (s : cm_state) (bs : list Z),
  cm_idle s = true -> ftrace cm_fcfg s bs = ftrace cm_fcfg cm_init bs.
Proof.
  exact (fun s bs H => fresh_after_idle cm_fcfg cm_fcfg_max cm_tail_not_hdr cm_exec s cm_init bs H
                         eq_refl).
Qed.
Print Assumptions C03_calmux_fresh_after_idle.

Theorem C03_calmux_idle_is_initial_framing : forall (s : cm_state),
  cm_idle s = true -> s = Build_sstate [] (dev s).
Proof. exact (idle_state_is_fresh cm_fcfg cm_fcfg_max cm_tail_not_hdr cm_exec). Qed.
Print Assumptions C03_calmux_idle_is_initial_framing.
