(* Specification of a listening server's connection, stated on the UNSEGMENTED byte stream
   only (C01).  It shares with the model the vocabulary (actions, outcomes, the device as a
   black-box state machine) and the two Python primitives `split` and `encode('latin-1')`,
   nothing of the handler's control flow: no receive buffer, no `response` cell, no segments.

   For a stream b_1 .. b_n the specified behaviour is, for i = 1 .. n in order:
     Parse b_i;
     then Send s      iff the outcome of that very parse is a non-empty str s encodable in latin-1;
     then the command block iff a custom command `$body%%%%%` ends exactly at position i
                      ([completes] looks at the prefix b_1 .. b_i as a whole). *)
From DS Require Import Base.Prelude Model.SrvHandler.

(* the bytes after the last '$' of [pre]; None when [pre] has no '$' *)
Fixpoint since_header (pre : list Z) : option (list Z) :=
  match pre with
  | [] => None
  | b :: r =>
      match since_header r with
      | Some t => Some t
      | None => if b =? HEADER then Some r else None
      end
  end.

(* the non-empty prefixes of a list, shortest first *)
Fixpoint prefixes (l : list Z) : list (list Z) :=
  match l with
  | [] => []
  | x :: r => [x] :: map (cons x) (prefixes r)
  end.

(* '%%%%%' in t *)
Definition contains_tail (t : list Z) : bool := existsb (ends_with custom_tail) (prefixes t).

(* A custom command ends exactly at the end of [pre]: the text after the last '$' ends with the
   tail and the tail does not occur in it earlier; the result is the body between '$' and the
   tail. *)
Definition completes (pre : list Z) : option (list Z) :=
  match since_header pre with
  | Some t =>
      if ends_with custom_tail t && negb (contains_tail (removelast t))
      then Some (firstn (length t - 5) t)
      else None
  | None => None
  end.

(* body grammar  name | name ':' [p1 (',' p)*]   (no ':' in name or parameters);
   None = malformed (two or more ':') *)
Definition parse_body (body : list Z) : option (list Z * list (list Z)) :=
  match py_split COLON body with
  | [name] => Some (name, [])
  | [name; ps] => Some (name, match ps with [] => [] | _ => py_split COMMA ps end)
  | _ => None
  end.

(* the reply to transmit for one parse outcome *)
Definition reply_of (o : outcome) : list action :=
  match o with
  | ORet (VStr (c :: s)) =>
      match encode_latin1 (c :: s) with Some p => [Send p] | None => [] end
  | _ => []
  end.

(* what the result of a custom operation makes the server do *)
Definition result_actions (r : sysres) : list action :=
  match r with
  | RStr s =>
      match encode_latin1 s with
      | Some p => Send p :: (if zlist_eqb s shutdown_ack then [Stop] else [])
      | None => []
      end
  | _ => []
  end.

Section Spec.
  Variable E : Type.
  Variable sparse : E -> Z -> outcome * E.
  Variable scall : E -> list Z -> list (list Z) -> sysres * E.

  Definition command_block (e : E) (body : list Z) : list action * E :=
    match parse_body body with
    | None => ([], e)                                    (* malformed: ignored *)
    | Some (name, params) =>
        let (r, e') := scall e name params in
        (Call name params :: result_actions r, e')       (* invoked once *)
    end.

  (* [pre]: the bytes already consumed; [rest]: the bytes still to come *)
  Fixpoint relay_from (pre rest : list Z) (e : E) : list action * E :=
    match rest with
    | [] => ([], e)
    | b :: rest' =>
        let (o, e1) := sparse e b in
        let pre' := pre ++ [b] in
        let (ca, e2) := match completes pre' with
                        | Some body => command_block e1 body
                        | None => ([], e1)
                        end in
        let (ra, e3) := relay_from pre' rest' e2 in
        (Parse b :: reply_of o ++ ca ++ ra, e3)
    end.

  Definition relay_spec (bs : list Z) (e : E) : list action * E := relay_from [] bs e.
End Spec.

(* the bodies of the custom commands of a stream, in order of completion *)
Fixpoint scan_from (pre rest : list Z) : list (list Z) :=
  match rest with
  | [] => []
  | b :: rest' =>
      match completes (pre ++ [b]) with
      | Some body => body :: scan_from (pre ++ [b]) rest'
      | None => scan_from (pre ++ [b]) rest'
      end
  end.
Definition scan (bs : list Z) : list (list Z) := scan_from [] bs.

(* a custom command `$body%%%%%` ends exactly at the end of [pre] (declarative form) *)
Definition occurs_tail (l : list Z) : Prop := exists u v, l = u ++ custom_tail ++ v.
Definition command_ends (pre body : list Z) : Prop :=
  exists x, pre = x ++ HEADER :: body ++ custom_tail /\
            ~ In HEADER body /\
            ~ occurs_tail (body ++ [PCT; PCT; PCT; PCT]).

(* projections of an action trace *)
Definition parses (a : list action) : list Z :=
  flat_map (fun x => match x with Parse b => [b] | _ => [] end) a.
Definition calls (a : list action) : list (list Z * list (list Z)) :=
  flat_map (fun x => match x with Call n p => [(n, p)] | _ => [] end) a.
Definition sends (a : list action) : list (list Z) :=
  flat_map (fun x => match x with Send p => [p] | _ => [] end) a.
Definition is_dies (x : action) : bool := match x with Dies _ => true | _ => false end.
