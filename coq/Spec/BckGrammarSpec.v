(* Independent, declarative statement of the backend reply grammar (C19 / C04 backend).
   Written against the protocol (Golden reply_re), not against the model's recogniser: no function of
   Model/BckModel.v is used here.

     reply line  =  '!' name ',' code [ ',' arguments ] CR LF
     name        =  ASCII letter, then ASCII letters / digits / '-'
     code        =  ok | fail | invalid
     arguments   =  one or more characters, none of them CR or LF                                        *)
From DS Require Import Base.Prelude.

Definition alpha (c : Z) : Prop := 65 <= c <= 90 \/ 97 <= c <= 122.
Definition namech (c : Z) : Prop := alpha c \/ 48 <= c <= 57 \/ c = 45.

Definition name_wf (n : list Z) : Prop :=
  exists c r, n = c :: r /\ alpha c /\ Forall namech r.

Definition code_ok : list Z := [111; 107].                            (* "ok" *)
Definition code_fail : list Z := [102; 97; 105; 108].                 (* "fail" *)
Definition code_invalid : list Z := [105; 110; 118; 97; 108; 105; 100]. (* "invalid" *)
Definition code_wf (c : list Z) : Prop := c = code_ok \/ c = code_fail \/ c = code_invalid.

Definition no_crlf_char (c : Z) : Prop := c <> 13 /\ c <> 10.
Definition arg_text (a : list Z) : Prop := a <> [] /\ Forall no_crlf_char a.

(* reply_line r name code args: r is a well-formed reply line with that name, code and argument text *)
Inductive reply_line : list Z -> list Z -> list Z -> option (list Z) -> Prop :=
| ReplyNoArgs n c :
    name_wf n -> code_wf c ->
    reply_line ([33] ++ n ++ [44] ++ c ++ [13; 10]) n c None
| ReplyArgs n c a :
    name_wf n -> code_wf c -> arg_text a ->
    reply_line ([33] ++ n ++ [44] ++ c ++ [44] ++ a ++ [13; 10]) n c (Some a).

(* request line without its terminator: '?' name [ ',' arguments ] *)
Inductive request_text : list Z -> list Z -> option (list Z) -> Prop :=
| RequestNoArgs n : name_wf n -> request_text ([63] ++ n) n None
| RequestArgs n a : name_wf n -> arg_text a -> request_text ([63] ++ n ++ [44] ++ a) n (Some a).

Definition undefined_name : list Z := [117; 110; 100; 101; 102; 105; 110; 101; 100].   (* "undefined" *)

Example reply_line_example :
  reply_line [33; 116; 44; 111; 107; 44; 49; 13; 10] [116] code_ok (Some [49]).    (* "!t,ok,1\r\n" *)
Proof.
  apply (ReplyArgs [116] code_ok [49]).
  - exists 116, []. repeat split; try constructor; unfold alpha; lia.
  - left; reflexivity.
  - split; [discriminate|]. repeat constructor; lia.
Qed.
