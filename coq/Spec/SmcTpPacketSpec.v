(* Independent reading of a total power data packet (what a client of the data socket does):
   a packet is a sequence of fixed-size records
       4 bytes  epoch seconds, little endian unsigned
       2 bytes  sample counter, little endian unsigned
       2 bytes  status word, little endian
       4 bytes  per channel: sample, little endian unsigned
   Nothing here refers to the model or to the utils codec models. *)
From DS Require Import Base.Prelude.

Record drec := { r_epoch : Z; r_counter : Z; r_status : Z; r_samples : list Z }.

Definition rec_size (ch : nat) : nat := (8 + 4 * ch)%nat.

Fixpoint le_val (l : list Z) : Z :=
  match l with
  | [] => 0
  | b :: r => b + 256 * le_val r
  end.

Fixpoint words4 (k : nat) (l : list Z) : list Z :=
  match k with
  | O => []
  | S k' => le_val (firstn 4 l) :: words4 k' (skipn 4 l)
  end.

Definition decode_record (ch : nat) (l : list Z) : option drec :=
  if (length l =? rec_size ch)%nat && bytesb l then
    Some {| r_epoch := le_val (firstn 4 l);
            r_counter := le_val (firstn 2 (skipn 4 l));
            r_status := le_val (firstn 2 (skipn 6 l));
            r_samples := words4 ch (skipn 8 l) |}
  else None.

(* exactly n records and nothing else *)
Fixpoint decode_packet (ch n : nat) (l : list Z) : option (list drec) :=
  match n with
  | O => match l with [] => Some [] | _ => None end
  | S n' =>
      match decode_record ch (firstn (rec_size ch) l), decode_packet ch n' (skipn (rec_size ch) l) with
      | Some r, Some rs => Some (r :: rs)
      | _, _ => None
      end
  end.

(* status word: bits 0-2 = 111, bit 3 = toggle, bit 4 = calibration mark, bit 5 = 50 Ohm (zero),
   bits 6-7 = 01, high byte 0xA0 when the toggle bit is set and 0x90 otherwise *)
Definition sw_toggle (w : Z) : bool := Z.testbit w 3.
Definition sw_cal (w : Z) : bool := Z.testbit w 4.
Definition sw_zero (w : Z) : bool := Z.testbit w 5.
Definition sw_wellformed (w : Z) : bool :=
  (w mod 8 =? 7) && ((w / 64) mod 4 =? 1) && (w / 256 =? (if sw_toggle w then 160 else 144)).

(* the records a packet must contain, as arithmetic on the acquisition parameters:
   c = counter of the first record, k = samples since the last calibration mark, con = calOn at entry
   (a pending `N 1` marks the first record), per = calOnPeriod, z / t = zero and toggle bits *)
Definition status_word (z c t : Z) : Z :=
  7 + 8 * t + 16 * c + 32 * z + 64 + 256 * (if t =? 0 then 144 else 160).

Fixpoint spec_recs (sp per z t : Z) (ch : nat) (c k con : Z) (es : list Z) (draws : list Z) : list drec :=
  match es with
  | [] => []
  | e :: es' =>
      let mark := negb (per =? 0) && (k =? per) in
      let con' := if mark then 1 else con in
      let k' := if per =? 0 then k else if mark then 0 else k + 1 in
      {| r_epoch := e; r_counter := c; r_status := status_word z con' t;
         r_samples := map (fun d => d * sp) (firstn ch draws) |}
      :: spec_recs sp per z t ch ((c + 1) mod 65536) k' 0 es' (skipn ch draws)
  end.
