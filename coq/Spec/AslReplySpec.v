(* Independent decoder of USD replies (part c04_as), written from the protocol layout with
   arithmetic (sum, /, mod) - not from the simulator's reply assembly (bin strings, checksum()):
     ACK                                  0x06
     NAK                                  0x15
     ACK FA payload chk                   data reply, request started with 0xFA
     ACK FC (len<<5 | idx) payload chk    data reply, request started with 0xFC
   chk makes the byte sum of the whole reply 255 modulo 256; the length nibble equals the number
   of payload bytes; every element is a byte (the reply is sent latin-1 encoded). *)
From DS Require Import Base.Prelude.

Inductive dreply :=
| DAck
| DNakR
| DData (start : Z) (addr : option Z) (payload : list Z).

Definition rsum (l : list Z) : Z := fold_right Z.add 0 l.

Definition usd_decode (r : list Z) : option dreply :=
  if negb (bytesb r) then None
  else match r with
  | [6] => Some DAck
  | [21] => Some DNakR
  | 6 :: 250 :: rest =>
      match rev rest with
      | _chk :: rp =>
          match rp with
          | [] => None
          | _ => if rsum r mod 256 =? 255 then Some (DData 250 None (rev rp)) else None
          end
      | [] => None
      end
  | 6 :: 252 :: hdr :: rest =>
      match rev rest with
      | _chk :: rp =>
          if (hdr / 32 =? Z.of_nat (length rp)) && (1 <=? hdr / 32) && (rsum r mod 256 =? 255)
          then Some (DData 252 (Some (hdr mod 32)) (rev rp)) else None
      | [] => None
      end
  | _ => None
  end.

(* the reply names its request: start byte of the request, and its address when the request
   asked for it (0xFC) *)
Definition echoes (req_start req_idx : Z) (d : dreply) : Prop :=
  match d with
  | DAck | DNakR => True
  | DData s a _ => s = req_start /\ (req_start = 252 -> a = Some req_idx)
  end.
Definition echoesb (req_start req_idx : Z) (d : dreply) : bool :=
  match d with
  | DAck | DNakR => true
  | DData s a _ => (s =? req_start) &&
                   (if req_start =? 252 then match a with Some i => i =? req_idx | None => false end
                    else true)
  end.
