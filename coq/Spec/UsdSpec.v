(* USD actuator protocol, executable specification (C13).

   Written from the protocol description, not from the implementation's string manipulations:
   the docstrings of simulators/active_surface/usd.py (class USD), the handler docstrings and
   command table of simulators/active_surface/__init__.py, command_library.py (frame layout) and
   the bit tables in the comments of usd.py.  Everything is arithmetic on integers: bit i of a
   parameter byte is (b / 2^i) mod 2, multi-byte parameters are big-endian two's complement, the
   status bytes are sums of weighted flags.  The state is the complete attribute set of one USD
   (the record of Model/UsdModel.v, which only fixes names and types).

   Choices where the protocol text is silent or contradictory (the specification adopts the
   behaviour that the shipped tests rely on; none of these is counted as a finding):
   - a queued *relative* position is an offset applied to the position held at TRIGGER time
     (tests/test_active_surface.py::test_delayed_execution expects 2000 + 4000 = 6000);
   - TRIGGER while a velocity command is active consumes the queued position without moving;
     TRIGGER while a positioning is running replaces its target;
   - set_resolution: any parameter byte >= 8 selects automatic resolution (only the low nibble
     is described);  rotate: the direction is the sign of the byte read as a signed 8-bit
     integer and direction 0 is a positioning to position 0;
   - the 'running' flag is refreshed by the positioning loop only, so busy refusal (NAK) follows
     the flag as of the last time step;
   - a parameter list of the wrong length is answered with NAK and changes nothing; an unknown
     command code is rejected (ValueError in System._parse) and changes nothing. *)
From DS Require Import Base.Prelude Model.UsdModel.

(* ---------- wire encodings ---------- *)
Definition bitz (b i : Z) : Z := (b / 2 ^ i) mod 2.
Definition bitb (b i : Z) : bool := bitz b i =? 1.

Definition signed (width v : Z) : Z := if v <? 2 ^ (width - 1) then v else v - 2 ^ width.
Definition s16 (a b : Z) : Z := signed 16 (a * 256 + b).
Definition s24 (a b c : Z) : Z := signed 24 ((a * 256 + b) * 256 + c).
Definition s32 (a b c d : Z) : Z := signed 32 (((a * 256 + b) * 256 + c) * 256 + d).

(* 4-byte big-endian two's complement of a position *)
Definition be32 (p : Z) : list Z :=
  let v := p mod 2 ^ 32 in [v / 2 ^ 24; (v / 2 ^ 16) mod 256; (v / 2 ^ 8) mod 256; v mod 256].

Definition spec_checksum (l : list Z) : Z := 255 - (fold_right Z.add 0 l) mod 256.

(* answer frame: ACK, the request's start byte, [payload length : 3 bits | unit index : 5 bits]
   only when the start byte is 0xFC, the payload, the checksum *)
Definition spec_frame (byte_start idx : Z) (payload : list Z) : list Z :=
  let r := [6; byte_start]
           ++ (if byte_start =? 252 then [Z.of_nat (length payload) * 32 + idx] else [])
           ++ payload in
  r ++ [spec_checksum r].

(* ---------- commands ---------- *)
Inductive command :=
| CReset | CTrigger | CGetVersion | CStop | CGetPosition | CGetStatus | CGetDriverType
| CSetMinFrequency (f : Z) | CSetMaxFrequency (f : Z) | CSetSlopeDelayer (m : Z)
| CSetReferencePosition (p : Z) | CSetIoPins (b : Z) | CSetResolution (b : Z)
| CSetCurrentReduction (b : Z) | CSetResponseDelay (m : Z) | CSetDelayedExecution (b : Z)
| CSetAbsolutePosition (p : Z) | CSetRelativePosition (p : Z) | CRotate (b : Z)
| CSetVelocity (v : Z) | CSetStopIo (b : Z) | CSetPositioningIo (b : Z) | CSetHomeIo (b : Z)
| CSetWorkingMode (b0 b1 : Z).

Inductive decoded := DCmd (c : command) | DBadParams | DUnknown.

(* command table: code, number of parameter bytes, meaning of the bytes *)
Definition decode (code : Z) (params : list Z) : decoded :=
  let p0 (c : command) := match params with [] => DCmd c | _ => DBadParams end in
  let p1 (c : Z -> command) := match params with [b] => DCmd (c b) | _ => DBadParams end in
  match code with
  | 0x01 => p0 CReset
  | 0x02 => p0 CTrigger
  | 0x10 => p0 CGetVersion
  | 0x11 => p0 CStop
  | 0x12 => p0 CGetPosition
  | 0x13 => p0 CGetStatus
  | 0x14 => p0 CGetDriverType
  | 0x20 => match params with [a; b] => DCmd (CSetMinFrequency (s16 a b)) | _ => DBadParams end
  | 0x21 => match params with [a; b] => DCmd (CSetMaxFrequency (s16 a b)) | _ => DBadParams end
  | 0x22 => p1 CSetSlopeDelayer
  | 0x23 => match params with
            | [a; b; c; d] => DCmd (CSetReferencePosition (s32 a b c d)) | _ => DBadParams end
  | 0x25 => p1 CSetIoPins
  | 0x26 => p1 CSetResolution
  | 0x27 => p1 CSetCurrentReduction
  | 0x28 => p1 CSetResponseDelay
  | 0x29 => p1 CSetDelayedExecution
  | 0x2A => p1 CSetStopIo
  | 0x2B => p1 CSetPositioningIo
  | 0x2C => p1 CSetHomeIo
  | 0x2D => match params with [a; b] => DCmd (CSetWorkingMode a b) | _ => DBadParams end
  | 0x30 => match params with
            | [a; b; c; d] => DCmd (CSetAbsolutePosition (s32 a b c d)) | _ => DBadParams end
  | 0x31 => match params with
            | [a; b; c; d] => DCmd (CSetRelativePosition (s32 a b c d)) | _ => DBadParams end
  | 0x32 => p1 CRotate
  | 0x35 => match params with [a; b; c] => DCmd (CSetVelocity (s24 a b c)) | _ => DBadParams end
  | _ => DUnknown
  end.

(* I/O line tables.  Byte of set_io_pins: bit 4+k = direction of line k (1 = output),
   bit k = its value (meaningful for outputs only).  Byte of the trigger / stop / positioning /
   home settings: bit k = line k takes part, bit 3+k = its level (0 when it does not). *)
Definition io_directions (b : Z) : tri := (bitz b 4, bitz b 5, bitz b 6).
Definition io_values (b : Z) : tri :=
  (bitz b 4 * bitz b 0, bitz b 5 * bitz b 1, bitz b 6 * bitz b 2).
Definition io_enables (b : Z) : tri := (bitz b 0, bitz b 1, bitz b 2).
Definition io_levels (b : Z) : tri :=
  (bitz b 0 * bitz b 3, bitz b 1 * bitz b 4, bitz b 2 * bitz b 5).

(* status bytes *)
Definition flag (b : bool) : Z := if b then 1 else 0.
Definition status_bytes (u : usd) : list Z :=
  let '(d0, d1, d2) := io_dir u in
  let '(v0, v1, v2) := io_val u in
  [0;
   d2 * 64 + d1 * 32 + d0 * 16 + v2 * 4 + v1 * 2 + v0;
   flag (running u) * 128 + flag (delayed_execution u) * 64 + flag (ready u) * 32
   + flag (full_current u) * 16 + flag (auto_resolution u) * 8 + Z.log2 (resolution u)].

Definition frequency_ok (f : Z) : bool := (20 <=? f) && (f <=? 10000).
Definition moving_by_velocity (u : usd) : bool :=
  match velocity u with Some v => negb (v =? 0) | None => false end.

Definition acked (u : usd) : usd * outcome := (u, OReply ack).
Definition refused (u : usd) : usd * outcome := (u, OReply nak).

(* positioning request (absolute target [tgt], or relative [offset]): queued when delayed
   execution is on; otherwise refused while moving, else it becomes the current target *)
Definition request_position (absolute : bool) (queued now_target : Z) (u : usd) : usd * outcome :=
  if delayed_execution u then
    acked (set_ready true (set_position_queue (position_queue u ++ [(queued, absolute)]) u))
  else if running u then refused u
  else acked (set_cmd_position (Some now_target) u).

Definition exec (c : command) (byte_start : Z) (u : usd) : usd * outcome :=
  match c with
  | CReset => acked (usd_default (usd_index u) (last_movement u))
  | CTrigger =>
      match position_queue u with
      | [] => acked u
      | (p, absolute) :: rest =>
          let tgt := if absolute then p else current_position u + p in
          let u1 := set_ready (match rest with [] => false | _ => true end)
                      (set_position_queue rest u) in
          acked (if moving_by_velocity u then u1 else set_cmd_position (Some tgt) u1)
      end
  | CGetVersion => (u, OReply (spec_frame byte_start (usd_index u) [1 + 3 + 15]))
  | CStop => acked (set_cmd_position None (set_velocity_attr None u))
  | CGetPosition => (u, OReply (spec_frame byte_start (usd_index u) (be32 (current_position u))))
  | CGetStatus => (u, OReply (spec_frame byte_start (usd_index u) (status_bytes u)))
  | CGetDriverType => (u, OReply (spec_frame byte_start (usd_index u) [0x20]))
  | CSetMinFrequency f =>
      if frequency_ok f && (f <=? max_frequency u) then acked (set_min_frequency_attr f u)
      else refused u
  | CSetMaxFrequency f =>
      if frequency_ok f && (min_frequency u <=? f) then acked (set_max_frequency_attr f u)
      else refused u
  | CSetSlopeDelayer m => acked (set_slope_delayer (m + 1) u)
  | CSetReferencePosition p => acked (set_reference_position p u)
  | CSetIoPins b => acked (set_io_val (io_values b) (set_io_dir (io_directions b) u))
  | CSetResolution b =>
      if 8 <=? b then acked (set_resolution_attr 1 (set_auto_resolution true u))
      else acked (set_resolution_attr (2 ^ b) (set_auto_resolution false u))
  | CSetCurrentReduction b =>
      (* bits 7..6: reduction 0, 0, 25 %, 50 % (in quarters: 0, 0, 1, 2); bits 5..0: delay *)
      let mode := b / 64 in
      acked (set_standby_delay_multiplier (b mod 64)
               (set_standby_mode (if mode <=? 1 then 0 else mode - 1) u))
  | CSetResponseDelay m => acked (set_delay_multiplier m u)
  | CSetDelayedExecution b =>
      (* bit 7 switches delayed execution on/off; the queue is flushed either way *)
      acked (set_ready false (set_position_queue []
               (set_trigger_io_level (io_levels b) (set_trigger_io_enable (io_enables b)
                  (set_delayed_execution_attr (bitb b 7) u)))))
  | CSetAbsolutePosition p =>
      request_position true (reference_position u + p) (reference_position u + p) u
  | CSetRelativePosition p => request_position false p (current_position u + p) u
  | CRotate b =>
      let direction := if b =? 0 then 0 else if b <? 128 then 1 else -1 in
      if running u then refused u
      else acked (set_cmd_position (Some (direction * (max_position + 1))) u)
  | CSetVelocity v =>
      if (v <? -100000) || (100000 <? v) then refused u
      else if negb (auto_resolution u) && (Z.abs v <? 10) && negb (v =? 0) then refused u
      else acked (set_velocity_attr (if v =? 0 then None else Some v) (set_cmd_position None u))
  | CSetStopIo b => acked (set_stop_io_level (io_levels b) (set_stop_io_enable (io_enables b) u))
  | CSetPositioningIo b =>
      acked (set_pos_io_level (io_levels b) (set_pos_io_enable (io_enables b) u))
  | CSetHomeIo b => acked (set_home_io_level (io_levels b) (set_home_io_enable (io_enables b) u))
  | CSetWorkingMode b0 _ => acked (set_baud_rate (if bitb b0 0 then 19200 else 9600) u)
  end.

Definition spec_handle (code byte_start : Z) (params : list Z) (u : usd) : usd * outcome :=
  match decode code params with
  | DCmd c => exec c byte_start u
  | DBadParams => refused u
  | DUnknown => (u, OValueError)
  end.

(* ---------- motion ---------- *)
Definition in_range (p : Z) : bool := (min_position <=? p) && (p <=? max_position).
Definition limit (p : Z) : Z :=
  if p <? min_position then min_position else if max_position <? p then max_position else p.
Definition direction_of (x : Z) : Z := if x <? 0 then -1 else if 0 <? x then 1 else 0.

(* displacement in one time step of k/1024 s: frequency x microsteps per step x time, rounded to
   the nearest unit (ties to even) *)
Definition spec_rate (u : usd) : Z :=
  (if moving_by_velocity u then match velocity u with Some v => Z.abs v | None => 0 end
   else max_frequency u) * (128 / resolution u).
Definition spec_displacement (u : usd) (k : Z) : Z :=
  let n := spec_rate u * k in
  (n + 512) / 1024 - (if n mod 2048 =? 512 then 1 else 0).

(* the unit is energised at full current and its idle timer restarts *)
Definition energised (now : Z) (u : usd) : usd :=
  set_last_movement (Some now) (set_standby false (set_full_current true
    (set_current_percentage 4 u))).

(* current reduction: once the unit has been still for standby_delay_multiplier x 4096 us the
   current drops to (1 - reduction); times are in 1/1024 s *)
Definition rest (now : Z) (u : usd) : usd :=
  if running u || standby u then u else
  match last_movement u with
  | Some since =>
      if negb (since =? 0)
         && (standby_delay_multiplier u * 4096 * 1024 <=? (now - since) * 1000000) then
        set_standby true (set_last_movement None
          (set_full_current (standby_mode u =? 0)
            (set_current_percentage (4 - standby_mode u) u)))
      else u
  | None => u
  end.

Definition spec_calc (d now : Z) (u : usd) : usd :=
  let pos := current_position u in
  rest now
    (if moving_by_velocity u then
       match velocity u with
       | Some v => set_current_position (limit (pos + direction_of v * d))
                     (set_running true (energised now u))
       | None => u
       end
     else match cmd_position u with
          | None => set_running false u
          | Some tgt =>
              if in_range tgt && (Z.abs (tgt - pos) <=? d) then        (* arrival *)
                set_running false (set_cmd_position None (set_current_position tgt
                  (energised now u)))
              else set_current_position (limit (pos + direction_of (tgt - pos) * d))
                     (set_running true (energised now u))
          end).

Definition spec_tick (k now : Z) (u : usd) : usd := spec_calc (spec_displacement u k) now u.

(* response delay 255: the unit executes the command but does not answer *)
Definition spec_parse1 (code byte_start : Z) (params : list Z) (u : usd) : usd * outcome :=
  let '(u', o) := spec_handle code byte_start params u in
  (u', match o with
       | OReply r => if delay_multiplier u' =? 255 then OSilent else OReply r
       | _ => o
       end).

Definition spec_step (s : sim) (e : event) : sim * option outcome :=
  let '(u, now) := s in
  match e with
  | ECmd c b p => let '(u', o) := spec_parse1 c b p u in ((u', now), Some o)
  | ETick k => ((spec_tick k (now + k) u, now + k), None)
  end.

Fixpoint spec_run (s : sim) (h : list event) : sim * list (option outcome) :=
  match h with
  | [] => (s, [])
  | e :: h' => let '(s1, o) := spec_step s e in
               let '(s2, os) := spec_run s1 h' in (s2, o :: os)
  end.

(* ---------- a line of units ---------- *)
(* a broadcast command is executed by every unit of the line and answered by none; an unknown code
   is rejected *)
Definition spec_lstep (s : lstate) (e : levent) : lstate * option outcome :=
  let '(us, now) := s in
  match e with
  | LUni j c b p =>
      match nth_error us j with
      | Some u => let '(u', o) := spec_parse1 c b p u in ((upd_nth us j u', now), Some o)
      | None => ((us, now), Some OException)
      end
  | LBcast c b p =>
      match decode c p with
      | DUnknown => ((us, now), Some OValueError)
      | _ => ((map (fun u => fst (spec_handle c b p u)) us, now), Some OSilent)
      end
  | LTick k => ((map (spec_tick k (now + k)) us, now + k), None)
  end.

Fixpoint spec_lrun (s : lstate) (h : list levent) : lstate * list (option outcome) :=
  match h with
  | [] => (s, [])
  | e :: h' => let '(s1, o) := spec_lstep s e in
               let '(s2, os) := spec_lrun s1 h' in (s2, o :: os)
  end.
