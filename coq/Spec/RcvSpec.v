(* Independent decoder of the answers of the receiver protocol, written against the protocol
   description (literal codes), not against the tables or the encoder of the simulator:

     STX master slave command id code [len data] [xor EOT]

   len/data are present iff the answer code is ACK (0) and the command is a query that returns data
   (inquiry, version, get address / time / frame / port / data: low five bits 1,3,6,8,10,12,14);
   the xor checksum and EOT are present iff the command is in the extended range 0x41..0x4F.
   A reply may be the concatenation of several frames (broadcast). *)
From DS Require Import Base.Prelude.

Record aframe := mkF { f_master : Z; f_slave : Z; f_cmd : Z; f_id : Z; f_code : Z;
                       f_data : option (list Z) }.

Definition rx_xor (l : list Z) : Z := fold_left Z.lxor l 0.
Definition rx_is_ext (c : Z) : bool := (65 <=? c) && (c <=? 79).
Definition rx_is_abbr (c : Z) : bool := (97 <=? c) && (c <=? 111).
Definition rx_data_bearing (c : Z) : bool :=
  existsb (Z.eqb (c mod 32)) [1; 3; 6; 8; 10; 12; 14].
Definition rx_has_data (c code : Z) : bool :=
  (rx_is_ext c || rx_is_abbr c) && (code =? 0) && rx_data_bearing c.

Fixpoint rx_dec (fuel : nat) (r : list Z) : option (list aframe) :=
  match fuel with
  | O => None
  | S fuel' =>
      match r with
      | [] => Some []
      | stx :: ma :: sl :: c :: id :: code :: rest =>
          if negb (stx =? 2) then None else
          let hdr := [stx; ma; sl; c; id; code] in
          let payload :=
            if rx_has_data c code then
              match rest with
              | [] => None
              | ln :: rest' =>
                  if (0 <=? ln) && (ln <=? Z.of_nat (length rest'))
                  then Some (Some (firstn (Z.to_nat ln) rest'), ln :: firstn (Z.to_nat ln) rest',
                             skipn (Z.to_nat ln) rest')
                  else None
              end
            else Some (None, [], rest) in
          match payload with
          | None => None
          | Some (data, consumed, rest2) =>
              let fr := mkF ma sl c id code data in
              if rx_is_ext c then
                match rest2 with
                | ck :: eot :: rest3 =>
                    if (ck =? rx_xor (hdr ++ consumed)) && (eot =? 4)
                    then option_map (cons fr) (rx_dec fuel' rest3) else None
                | _ => None
                end
              else option_map (cons fr) (rx_dec fuel' rest2)
          end
      | _ => None
      end
  end.

Definition rx_decode (r : list Z) : option (list aframe) := rx_dec (S (length r)) r.
