"""Translator: simulators/receiver/DEFINITIONS.py (evaluated) + the DIO port maps of
simulators/receiver/slaves.py (ast)  ->  coq/Gen/RcvTables.v

Fail closed: every public module attribute of DEFINITIONS must be a one-character str (-> Z), a
str (-> list Z), an int (-> Z) or a list of one-character str (-> list Z); anything else raises
GenError.  The names the hand-written model relies on must all be present.

The DIO maps: for Dewar / Switch `get_data` and `set_data` the chain
    if port_number == DEF.PORT_NUMBER_xx: ... elif port_number == DEF.PORT_NUMBER_yy: ...
is read with `ast` and emitted as the list of port numbers of each chain (get: readable bits,
set: writable bits), in source order.  The model's own maps are compared with them in
Proofs/RcvTablesOk.v (a `vm_compute` obligation re-opened by any edit of the chains).
"""
import ast
import importlib
import os

from vlib.core import GenError, zlit, zlist

REQUIRED = '''CMD_SOH CMD_STX CMD_ETX CMD_EOT CMD_ACK CMD_ERR_CMD CMD_ERR_CHKS CMD_ERR_FORM CMD_ERR_DATA
CMD_ERR_FRAME_SIZE CMD_ERR_DATA_TYPE CMD_ERR_PORT_TYPE CMD_ERR_PORT_NUMBER
CMD_EXT_NO_PARAMS CMD_EXT_WITH_PARAMS CMD_EXT CMD_ABBR_NO_PARAMS CMD_ABBR_WITH_PARAMS CMD_ABBR
ACCEPTED_COMMANDS SLAVE_ADDR_BROADCAST_NO_ANSWER SLAVE_ADDR_BROADCAST_WITH_ANSWER SLAVE_ADDR_BROADCAST
SLAVE_ADDR_ACCEPTED FRAME_SIZE_ACCEPTED SLAVE_IDX MASTER_IDX CMD_IDX ID_IDX PAR_LEN_IDX PAR_LIST_IDX
CHECKSUM_IDX VERSION DATA_TYPES PORT_TYPES PORT_NUMBERS DATA_TYPE_B01 DATA_TYPE_U08 DATA_TYPE_F32
PORT_TYPE_DIO PORT_TYPE_AD24 PORT_NUMBER_00_07'''.split()
KINDS = ['INQUIRY', 'RESET', 'VERSION', 'SAVE', 'RESTORE', 'GET_ADDR', 'SET_ADDR', 'GET_TIME', 'SET_TIME',
         'GET_FRAME', 'SET_FRAME', 'GET_PORT', 'SET_PORT', 'GET_DATA', 'SET_DATA']
for _k in KINDS:
    REQUIRED += ['CMD_' + _k, 'CMD_EXT_' + _k, 'CMD_ABBR_' + _k]
REQUIRED += ['PORT_NUMBER_%02d' % i for i in range(32)]


def _definitions(repo):
    mod = importlib.import_module('simulators.receiver.DEFINITIONS')
    if not os.path.abspath(mod.__file__).startswith(os.path.abspath(repo) + os.sep):
        raise GenError('DEFINITIONS imported from %s, not from %s' % (mod.__file__, repo))
    out = []
    for name, val in vars(mod).items():
        if name.startswith('__') or name in ('sys', 'x'):
            continue
        if isinstance(val, bool):
            raise GenError('DEFINITIONS.%s: bool not expected' % name)
        if isinstance(val, int):
            out.append((name, 'Z', zlit(val)))
        elif isinstance(val, str) and len(val) == 1:
            out.append((name, 'Z', zlit(ord(val))))
        elif isinstance(val, str):
            out.append((name, 'list Z', zlist([ord(c) for c in val])))
        elif isinstance(val, list) and all(isinstance(e, str) and len(e) == 1 for e in val):
            out.append((name, 'list Z', zlist([ord(c) for c in val])))
        else:
            raise GenError('DEFINITIONS.%s has an unexpected shape: %r' % (name, type(val)))
    names = set(n for n, _, _ in out)
    missing = [n for n in REQUIRED if n not in names]
    if missing:
        raise GenError('DEFINITIONS lacks the names the model is written against: %s' % missing[:6])
    return out, mod


def _port_chain(fn, mod, cls, meth):
    """port numbers compared with `port_number` in the longest if/elif chain of the method"""
    best = []
    for node in ast.walk(fn):
        if not isinstance(node, ast.If):
            continue
        chain = []
        cur = node
        while True:
            t = cur.test
            if (isinstance(t, ast.Compare) and isinstance(t.left, ast.Name) and t.left.id == 'port_number'
                    and len(t.ops) == 1 and isinstance(t.ops[0], ast.Eq)
                    and isinstance(t.comparators[0], ast.Attribute)
                    and isinstance(t.comparators[0].value, ast.Name) and t.comparators[0].value.id == 'DEF'):
                attr = t.comparators[0].attr
                if not hasattr(mod, attr):
                    raise GenError('%s.%s: unknown DEF.%s' % (cls, meth, attr))
                chain.append(ord(getattr(mod, attr)))
            else:
                break
            if len(cur.orelse) == 1 and isinstance(cur.orelse[0], ast.If):
                cur = cur.orelse[0]
            else:
                break
        if len(chain) > len(best):
            best = chain
    return best


def _dio_maps(repo, mod):
    path = os.path.join(repo, 'simulators', 'receiver', 'slaves.py')
    tree = ast.parse(open(path).read())
    classes = {n.name: n for n in tree.body if isinstance(n, ast.ClassDef)}
    out = []
    for cls in ('Dewar', 'Switch', 'LNA'):
        if cls not in classes:
            raise GenError('slaves.py: class %s not found' % cls)
        meths = {n.name: n for n in classes[cls].body if isinstance(n, ast.FunctionDef)}
        for meth in ('get_data', 'set_data'):
            if meth not in meths:
                raise GenError('slaves.py: %s.%s not found' % (cls, meth))
            if cls == 'LNA':
                continue
            chain = _port_chain(meths[meth], mod, cls, meth)
            if len(chain) < 5:
                raise GenError('slaves.py: %s.%s: port chain not recognised' % (cls, meth))
            out.append(('%s_%s_ports' % (cls.upper(), meth), 'list Z', zlist(chain)))
    for cls in ('Slave', 'Feed'):
        if cls not in classes:
            raise GenError('slaves.py: class %s not found' % cls)
    return out


def generate(repo):
    defs, mod = _definitions(repo)
    lines = ['(* GENERATED by gen/rcv_tables.py from simulators/receiver/DEFINITIONS.py and slaves.py -- do not edit *)',
             'From Coq Require Import ZArith List.', 'Import ListNotations.', 'Open Scope Z_scope.', '']
    for name, ty, val in defs + _dio_maps(repo, mod):
        lines.append('Definition %s : %s := %s.' % (name, ty, val))
    return '\n'.join(lines) + '\n'


def run(ctx=None):
    from vlib import core
    text = generate(core.REPO)
    core.write_if_changed(os.path.join(core.COQ, 'Gen', 'RcvTables.v'), text)
