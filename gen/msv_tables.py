"""Translator (tag Msv): simulators/minor_servos/{__init__.py,helpers.py,setup.csv} -> coq/Gen/MsvTables.v

Fail closed: any source shape that is not recognised raises GenError (a broken tie).
What is read, and how:
  * `System.tail`, `System.bad`, `System.commands`, `System.configurations` (name -> ID),
    `DEFAULT_TIMER_VALUE`, `System.program_track_timegap`: evaluated class/module attributes;
  * the prefix of `System.good()` and the field layout of `System._status` (general status):
    `ast` over the f-strings;
  * the servo list of `System.__init__` (`self.servos = {...}`): `ast` (key, class, literal args),
    then each class is instantiated as the code does and DOF / min_coord / max_coord / max_delta /
    program_track_capable / constant flags are read from the instance;
  * the field layout of every `get_status` (base class header + subclass fields): `ast` over the
    f-strings; only the expression kinds listed in `piece_of` are known;
  * the setup table: `helpers.setup_import` itself is run on a fresh dict (cells '*' -> None).
Floats are emitted as binary64 bit patterns (Z).
"""
import ast
import os
import struct
import sys

from vlib.core import GenError, write_if_changed, zlit, zlist, COQ, REPO


def fbits(x):
    return struct.unpack('>Q', struct.pack('>d', float(x)))[0]


def zstr(s):
    for c in s:
        if ord(c) > 255:
            raise GenError('non latin-1 text in source: %r' % s)
    return zlist([ord(c) for c in s])


def olist(xs, f=zlit):
    return '[' + '; '.join('None' if x is None else '(Some %s)' % f(x) for x in xs) + ']'


def find_class(tree, name):
    for n in tree.body:
        if isinstance(n, ast.ClassDef) and n.name == name:
            return n
    raise GenError('class %s not found' % name)


def find_func(cls, name):
    for n in cls.body:
        if isinstance(n, ast.FunctionDef) and n.name == name:
            return n
    return None


def self_attr(e):
    """self.<a>  -> 'a' ; else None"""
    if isinstance(e, ast.Attribute) and isinstance(e.value, ast.Name) and e.value.id == 'self':
        return e.attr
    return None


def stores_outside_init(tree):
    """names a such that `self.a = ...` / `self.a += ...` occurs outside any __init__"""
    out = set()

    class V(ast.NodeVisitor):
        def __init__(self):
            self.stack = []

        def visit_FunctionDef(self, n):
            self.stack.append(n.name)
            self.generic_visit(n)
            self.stack.pop()

        def visit_Attribute(self, n):
            if isinstance(n.ctx, ast.Store) and self.stack and self.stack[-1] != '__init__':
                a = self_attr(n)
                if a:
                    out.add(a)
            self.generic_visit(n)
    V().visit(tree)
    return out


def fstring_pieces(fn, skip_first_assign):
    """the JoinedStr values of `answer = f'..'` / `answer += f'..'` statements at the top level of a
    function body, in order"""
    vals = []
    for st in fn.body:
        tgt = None
        if isinstance(st, ast.Assign) and len(st.targets) == 1 and isinstance(st.targets[0], ast.Name):
            tgt, val = st.targets[0].id, st.value
        elif isinstance(st, ast.AugAssign) and isinstance(st.op, ast.Add) and isinstance(st.target, ast.Name):
            tgt, val = st.target.id, st.value
        if tgt != 'answer':
            continue
        if isinstance(val, ast.JoinedStr):
            vals.append(val)
        elif isinstance(val, ast.Constant) and isinstance(val.value, str):
            vals.append(ast.JoinedStr(values=[val]))
        elif skip_first_assign and isinstance(st, ast.Assign):
            continue            # answer = super().get_status(now)
        else:
            raise GenError('unknown `answer` statement in %s: %s' % (fn.name, ast.dump(val)[:120]))
    return vals


def fmt_spec(fv):
    if fv.format_spec is None:
        return ''
    js = fv.format_spec
    if len(js.values) == 1 and isinstance(js.values[0], ast.Constant):
        return js.values[0].value
    raise GenError('dynamic format spec')


def servo_piece(fv, inst, mutable):
    e, spec = fv.value, fmt_spec(fv)
    a = self_attr(e)
    if a == 'name' and spec == '':
        return ('lit', inst.name)
    if a is not None and spec == '':
        v = getattr(inst, a)
        if not isinstance(v, int) or isinstance(v, bool) or a in mutable:
            raise GenError('status field self.%s is not a constant int flag' % a)
        return ('lit', str(v))
    if (isinstance(e, ast.Attribute) and e.attr == 'value' and self_attr(e.value) == 'operative_mode'
            and spec == ''):
        return ('mode',)
    if (isinstance(e, ast.Call) and isinstance(e.func, ast.Attribute) and e.func.attr == 'uniform'
            and isinstance(e.func.value, ast.Name) and e.func.value.id == 'random' and spec == '.6f'):
        return ('rnd',)
    if (isinstance(e, ast.Subscript) and self_attr(e.value) in ('coords', 'offsets') and spec == '.6f'
            and isinstance(e.slice, ast.Constant) and isinstance(e.slice.value, int)):
        i = e.slice.value
        if not 0 <= i < inst.DOF:
            raise GenError('status field index %d outside DOF of %s' % (i, inst.name))
        return ('coord' if self_attr(e.value) == 'coords' else 'offs', i)
    raise GenError('unknown status field expression: %s' % ast.dump(e)[:160])


def merge(pieces):
    out = []
    for p in pieces:
        if p[0] == 'lit' and out and out[-1][0] == 'lit':
            out[-1] = ('lit', out[-1][1] + p[1])
        else:
            out.append(p)
    return out


def coq_piece(p):
    if p[0] == 'lit':
        return 'PLit %s' % zstr(p[1])
    if p[0] == 'mode':
        return 'PMode'
    if p[0] == 'rnd':
        return 'PRnd'
    if p[0] == 'coord':
        return 'PCoord %d%%nat' % p[1]
    if p[0] == 'offs':
        return 'POffs %d%%nat' % p[1]
    return {'cfg': 'PCfg', 'time': 'PTime', 'gcap': 'PGcap', 'last': 'PLast'}[p[0]]


def sys_piece(fv, sysconst, mutable):
    e, spec = fv.value, fmt_spec(fv)
    if spec != '':
        raise GenError('format spec in general status')
    a = self_attr(e)
    if a == 'configuration':
        return ('cfg',)
    if a == 'last_executed_command':
        return ('last',)
    if a is not None:
        if a not in sysconst or a in mutable:
            raise GenError('general status field self.%s is not a constant' % a)
        return ('lit', str(sysconst[a]))
    if isinstance(e, ast.Name) and e.id == 'plc_time':
        return ('time',)
    if isinstance(e, ast.Attribute) and e.attr == 'value' and self_attr(e.value) == 'gregorian_cap':
        return ('gcap',)
    raise GenError('unknown general status field: %s' % ast.dump(e)[:160])


def translate(repo=None):
    repo = repo or REPO
    src = os.path.join(repo, 'simulators', 'minor_servos', '__init__.py')
    tree = ast.parse(open(src).read())
    if repo not in sys.path:
        sys.path.insert(0, repo)
    import importlib
    ms = importlib.import_module('simulators.minor_servos')
    helpers = importlib.import_module('simulators.minor_servos.helpers')
    if not ms.__file__.startswith(repo + '/'):
        raise GenError('simulators.minor_servos imported from %s, not %s' % (ms.__file__, repo))
    System = ms.System
    mutable = stores_outside_init(tree)

    out = ['(* GENERATED by gen/msv_tables.py from simulators/minor_servos — do not edit *)',
           'From Coq Require Import ZArith List.', 'From DS Require Import Model.MsvTypes.',
           'Import ListNotations.', 'Open Scope Z_scope.', '']
    out.append('Definition g_tail : list Z := %s.' % zstr(System.tail))
    out.append('Definition g_bad : list Z := %s.' % zstr(System.bad))
    # good(): f'OUTPUT:GOOD,{self.plc_time(now)}'
    syscls = find_class(tree, 'System')
    g = find_func(syscls, 'good')
    ret = g.body[-1] if g else None
    if not (isinstance(ret, ast.Return) and isinstance(ret.value, ast.JoinedStr) and len(ret.value.values) == 2
            and isinstance(ret.value.values[0], ast.Constant)
            and isinstance(ret.value.values[1], ast.FormattedValue)
            and isinstance(ret.value.values[1].value, ast.Call)
            and getattr(ret.value.values[1].value.func, 'attr', None) == 'plc_time'):
        raise GenError('System.good has an unknown shape')
    out.append('Definition g_good_prefix : list Z := %s.' % zstr(ret.value.values[0].value))
    pt = find_func(syscls, 'plc_time')
    r = pt.body[-1] if pt else None
    if not (isinstance(r, ast.Return) and isinstance(r.value, ast.JoinedStr) and len(r.value.values) == 1
            and isinstance(r.value.values[0], ast.FormattedValue) and fmt_spec(r.value.values[0]) == '.6f'):
        raise GenError('System.plc_time has an unknown shape')
    cmds = System.commands
    if not all(isinstance(k, str) and isinstance(v, str) for k, v in cmds.items()):
        raise GenError('commands')
    out.append('Definition g_commands : list (list Z * list Z) := [%s].'
               % '; '.join('(%s, %s)' % (zstr(k), zstr(v)) for k, v in cmds.items()))
    for v in cmds.values():
        if find_func(syscls, v) is None:
            raise GenError('command handler %s missing' % v)
    tv = ms.DEFAULT_TIMER_VALUE
    if not isinstance(tv, int):
        raise GenError('DEFAULT_TIMER_VALUE is not an int')
    out.append('Definition g_default_timer_value : Z := %s.' % zlit(tv))
    out.append('Definition g_pt_timegap_bits : Z := %s.' % zlit(fbits(System.program_track_timegap)))
    # does _programTrack refuse a non-finite explicit start time?  (isfinite(start_time) somewhere in it)
    ptf = find_func(syscls, '_programTrack')
    if ptf is None:
        raise GenError('_programTrack missing')
    chk = any(isinstance(n, ast.Call) and getattr(n.func, 'attr', getattr(n.func, 'id', None)) == 'isfinite'
              and len(n.args) == 1 and isinstance(n.args[0], ast.Name) and n.args[0].id == 'start_time'
              for n in ast.walk(ptf))
    out.append('Definition g_pt_start_finite_check : bool := %s.' % ('true' if chk else 'false'))

    # servos
    init = find_func(syscls, '__init__')
    servo_dict = None
    sysconst = {}
    for st in ast.walk(init):
        if isinstance(st, ast.Assign) and len(st.targets) == 1:
            a = self_attr(st.targets[0])
            if a == 'servos':
                servo_dict = st.value
            elif a and isinstance(st.value, ast.Constant) and isinstance(st.value.value, int):
                sysconst[a] = st.value.value
    if not isinstance(servo_dict, ast.Dict):
        raise GenError('self.servos = {...} not found in System.__init__')
    base_fn = find_func(find_class(tree, 'Servo'), 'get_status')
    rows, layouts = [], []
    names = []
    for k, v in zip(servo_dict.keys, servo_dict.values):
        if not (isinstance(k, ast.Constant) and isinstance(v, ast.Call) and isinstance(v.func, ast.Name)
                and all(isinstance(a, ast.Constant) for a in v.args) and not v.keywords):
            raise GenError('unknown servo constructor shape')
        cls = getattr(ms, v.func.id)
        inst = cls(*[a.value for a in v.args])
        if inst.name != k.value:
            raise GenError('servo key %r differs from its name %r' % (k.value, inst.name))
        for lst in (inst.min_coord, inst.max_coord, inst.max_delta, inst.coords, inst.offsets):
            if len(lst) != inst.DOF:
                raise GenError('%s: list length differs from DOF' % inst.name)
        if any(c != 0 for c in inst.coords + inst.offsets + inst.cmd_coords) or inst.operative_mode.value != 0 \
                or inst.future_oper_mode != 0 or inst.last_status_read != 0:
            raise GenError('%s: unexpected initial state' % inst.name)
        names.append(inst.name)
        rows.append('mk_srow %s %d%%nat %s %s %s %s' % (
            zstr(inst.name), inst.DOF, 'true' if inst.program_track_capable else 'false',
            zlist([fbits(x) for x in inst.min_coord]), zlist([fbits(x) for x in inst.max_coord]),
            zlist([fbits(x) for x in inst.max_delta])))
        sub_fn = find_func(find_class(tree, v.func.id), 'get_status')
        if sub_fn is None:
            raise GenError('%s.get_status missing' % v.func.id)
        pieces = []
        for js in fstring_pieces(base_fn, False) + fstring_pieces(sub_fn, True):
            for x in js.values:
                if isinstance(x, ast.Constant):
                    pieces.append(('lit', x.value))
                else:
                    pieces.append(servo_piece(x, inst, mutable))
        layouts.append('(%s, [%s])' % (zstr(inst.name), '; '.join(coq_piece(p) for p in merge(pieces))))
    out.append('Definition g_servos : list srow := [\n  %s].' % ';\n  '.join(rows))
    out.append('Definition g_layouts : list (list Z * list piece) := [\n  %s].' % ';\n  '.join(layouts))

    # general status
    stf = find_func(syscls, '_status')
    els = None
    for st in stf.body:
        if isinstance(st, ast.If) and st.orelse and isinstance(st.test, ast.Compare) \
                and isinstance(st.test.ops[0], ast.Eq):
            els = st.orelse
    if els is None:
        raise GenError('_status: general branch not found')
    fake = ast.FunctionDef(name='_status', body=[s for s in els if not (
        isinstance(s, ast.Assign) and isinstance(s.targets[0], ast.Name) and s.targets[0].id != 'answer')])
    pieces = []
    first = True
    for s in fake.body:
        if isinstance(s, ast.Return):
            continue
        if first:
            first = False
            if not (isinstance(s, ast.Assign) and isinstance(s.value, ast.Call)
                    and getattr(s.value.func, 'attr', None) == 'good' and not s.value.args):
                raise GenError('_status: general branch does not start with answer = self.good()')
            continue
        if not (isinstance(s, ast.AugAssign) and isinstance(s.value, ast.JoinedStr)):
            raise GenError('_status: unknown statement in general branch')
        for x in s.value.values:
            pieces.append(('lit', x.value) if isinstance(x, ast.Constant) else sys_piece(x, sysconst, mutable))
    out.append('Definition g_sys_layout : list piece := [%s].' % '; '.join(coq_piece(p) for p in merge(pieces)))
    for a, want in (('configuration', 0), ('last_executed_command', 0)):
        if sysconst.get(a) != want:
            raise GenError('initial %s is not %r' % (a, want))

    # configurations + setup table (run the repo's own importer on a fresh dict)
    confs = {k: dict(v) for k, v in System.configurations.items()}
    for k, v in confs.items():
        for extra in list(v):
            if extra != 'ID':
                del v[extra]        # rows left there by an earlier construction in this process
        if not isinstance(v.get('ID'), int):
            raise GenError('configuration %s has no int ID' % k)
    old = os.environ.pop('ACS_CDB', None)
    try:
        helpers.setup_import(names + ['GREGORIAN_CAP'], confs)
    finally:
        if old is not None:
            os.environ['ACS_CDB'] = old
    trows = []
    for k, v in confs.items():
        cells = []
        for n, row in zip(names, rows):
            r = v.get(n)
            if r is None:
                raise GenError('configuration %s has no row for %s' % (k, n))
            cells.append(olist([None if c is None else fbits(c) for c in r]))
        cap = v.get('GREGORIAN_CAP')
        if not (isinstance(cap, list) and len(cap) == 1 and (cap[0] is None or isinstance(cap[0], int))):
            raise GenError('configuration %s: GREGORIAN_CAP cell' % k)
        trows.append('(%s, %s, [%s], %s)' % (zstr(k), zlit(v['ID']), '; '.join(cells),
                                            'None' if cap[0] is None else '(Some %s)' % zlit(cap[0])))
    out.append('Definition g_table : list (list Z * Z * list (list (option Z)) * option Z) := [\n  %s].'
               % ';\n  '.join(trows))
    return '\n'.join(out) + '\n'


def generate(repo=None):
    text = translate(repo)
    write_if_changed(os.path.join(COQ, 'Gen', 'MsvTables.v'), text)
    return text
