"""C06 translator: Python `ast` over every module under simulators/ -> the sharing table
(coq/Gen/ShrSharing.v) checked by `sharing_ok` (Model/ShrHeap.v).

What is extracted (fail closed: a statement/expression kind that is not handled raises GenError)

  shared objects   class-body attributes, module-level names and default arguments bound to a value
                   that is not provably immutable ("C:mod.Cls.attr", "G:mod.name", "D:mod.func.param")
  per class (MRO-flattened: own + inherited methods, class-body names of the whole MRO)
    c_cattrs        class-namespace attributes bound to such objects
    c_mutated       attributes mutated in place through an instance (subscript store, mutator
                    methods, augmented assignment, attribute store on the object, passing it to
                    a function/method that mutates or stores its argument, passing it to an
                    unknown callable)
    c_alias*        self.a = <something reachable from self.b / another instance's b / a shared object>
    c_deleted       del self.a
    c_shadowed      class-level attributes __init__ (following self._set_default()-style calls and
                    super().__init__) definitely rebinds from a fresh/immutable/copied value before
                    any other use
    c_smut/c_srebind  shared objects mutated in place / shared names rebound (directly or via a local alias)

The analysis is a flow-insensitive taint analysis per function with call summaries iterated to a
fixpoint.  Taint atoms:  ('S', a) reachable from self.a;  ('X', a) reachable from attribute a of
some other instance;  ('K', key) reachable from a shared object;  ('P', i) reachable from
parameter i.  It is type-blind, hence conservative: anything that may be an in-place mutation is
one.  The dynamic two-instance check in props/c06.py validates its claims on every run.
"""
import ast
import os
import re

try:
    from vlib.core import GenError
except Exception:  # stand-alone use
    class GenError(Exception):
        pass

# ---------------------------------------------------------------------------
# knowledge about names that are not repo code

IMM_CALLS = {  # calls whose result is immutable (or an object without device state)
    'chr', 'ord', 'int', 'float', 'str', 'bytes', 'len', 'range', 'bool', 'abs', 'min', 'max',
    'sum', 'round', 'hex', 'bin', 'format', 'repr', 'frozenset', 'tuple', 'type', 'isinstance',
    're.compile', 'os.path.join', 'os.environ.get', 'os.getenv', 'divmod', 'pow', 'any', 'all',
    'getattr',
}
FRESH_CONTAINER_CALLS = {'list', 'dict', 'set', 'sorted', 'zip', 'enumerate', 'map', 'filter',
                         'reversed', 'iter', 'next', 'bytearray', 'copy.copy', 'copy'}
PURE_BUILTINS = IMM_CALLS | FRESH_CONTAINER_CALLS | {
    'print', 'hasattr', 'id', 'super', 'callable', 'vars', 'object', 'Exception', 'ValueError',
    'KeyError', 'IndexError', 'TypeError', 'AttributeError', 'RuntimeError', 'IOError', 'OSError',
    'ImportError', 'NotImplementedError', 'StopIteration', 'deepcopy', 'copy.deepcopy', 'slice',
    'open', 'property', 'staticmethod', 'classmethod',
}
ELEM_RETURNING = {'list', 'dict', 'set', 'sorted', 'zip', 'enumerate', 'map', 'filter', 'reversed',
                  'iter', 'next', 'min', 'max', 'sum', 'tuple', 'copy.copy', 'copy', 'frozenset'}
# methods that mutate their receiver (any container / queue / sync object)
MUTATORS = {'append', 'extend', 'insert', 'remove', 'pop', 'clear', 'sort', 'reverse', 'update',
            'setdefault', 'popitem', 'add', 'discard', 'appendleft', 'popleft', 'put', 'put_nowait',
            'get_nowait', 'task_done', 'acquire', 'release', 'set', 'cancel', 'start', 'join', 'shutdown',
            'close', 'serve_forever', 'server_close', 'sendto', 'send', 'sendall', 'recv', 'connect',
            'settimeout', 'bind', 'listen', 'accept', 'setsockopt', 'write', 'flush', 'seek', 'rotate',
            'terminate', 'kill', 'wait', 'notify', 'notify_all', 'handle_request', 'rollover',
            'setDaemon', 'difference_update', 'intersection_update', 'symmetric_difference_update',
            '__setitem__', '__delitem__', 'fill', 'resize', 'itemset', 'empty', 'qsize', 'send_response',
            'send_header', 'end_headers', 'is_set'}
# methods that only read their receiver; the result may be (part of) the receiver
READERS_ELEM = {'get', 'values', 'items', 'keys', 'copy', '__getitem__', 'tolist', 'item', 'most_common'}
READERS_IMM = {'index', 'count', 'join', 'format', 'startswith', 'endswith', 'split', 'rsplit', 'strip',
               'rstrip', 'lstrip', 'lower', 'upper', 'replace', 'zfill', 'rjust', 'ljust', 'encode',
               'decode', 'isdigit', 'isalpha', 'isalnum', 'find', 'rfind', 'splitlines', 'partition',
               'is_alive', 'isAlive', 'locked', 'total_seconds', 'strftime', 'timestamp', 'hex',
               'to_bytes', 'bit_length', 'is_integer', 'group', 'groups', 'groupdict', 'match', 'search',
               'fullmatch', 'findall', 'sub', 'title', 'capitalize', 'center', 'isspace', 'swapcase',
               'issubset', 'issuperset', 'isdisjoint', 'union', 'intersection', 'difference',
               'date', 'time', 'timetuple', 'utctimetuple', 'weekday', 'isoformat', 'getsockname',
               'fileno', 'conjugate', 'as_integer_ratio', 'casefold', 'expandtabs', 'removeprefix',
               'removesuffix', 'mean', 'std', 'any', 'all', 'astype', 'exists'}
# names imported from outside simulators/ whose call does not mutate or retain its arguments
# (justification: standard-library / numpy / scipy functions computing a new value)
PURE_EXTERNAL = {
    'time.time', 'time.sleep', 'time.monotonic', 'time.strftime', 'time.gmtime', 'time.localtime',
    'sign', 'numpy.sign', 'splrep', 'splev', 'bisect_left', 'bisect_right', 'bisect.bisect_left',
    'json.dumps', 'json.loads', 're.split', 're.match', 're.search', 're.sub', 're.findall',
    're.fullmatch', 're.compile', 'math.pow', 'math.floor', 'math.ceil', 'math.sqrt', 'math.isnan',
    'math.fabs', 'math.modf', 'math.isinf', 'math.radians', 'math.degrees', 'math.sin', 'math.cos',
    'struct.pack', 'struct.unpack', 'struct.calcsize', 'random.random', 'random.uniform',
    'random.sample', 'random.randint', 'random.choice', 'random.gauss', 'random.randrange',
    'numpy.random.uniform', 'numpy.arange', 'numpy.array', 'numpy.zeros', 'numpy.random.normal',
    'numpy.random.randint', 'numpy.mean', 'numpy.interp', 'numpy.linspace',
    'datetime', 'datetime.utcnow', 'datetime.now', 'datetime.datetime', 'datetime.datetime.utcnow',
    'datetime.datetime.now', 'datetime.strptime', 'datetime.datetime.strptime', 'timedelta',
    'datetime.timedelta', 'datetime.datetime.strftime', 'datetime.date',
    'os.path.exists', 'os.path.join', 'os.path.dirname', 'os.path.abspath', 'os.path.basename',
    'os.environ.get', 'os.getenv', 'os.listdir', 'os.path.isdir', 'os.path.isfile', 'os.path.splitext',
    'files', 'csv.reader', 'operator.itemgetter', 'importlib.import_module', 'itertools.product',
    'itertools.chain', 'itertools.cycle', 'itertools.count', 'itertools.islice', 'pkgutil.iter_modules',
    'logging.warning', 'logging.debug', 'logging.info', 'logging.error', 'logging.getLogger',
    'logging.exception', 'socket.socket', 'Value', 'Lock', 'threading.Lock', 'threading.RLock', 'Queue',
    'queue.Queue', 'Event', 'threading.Event', 'HTTPServer', 'Process', 'Array', 'Manager',
    'ctypes.c_bool', 'c_bool', 'c_int', 'c_double', 'functools.partial', 'partial', 'OrderedDict',
    'defaultdict', 'deque', 'namedtuple', 'Decimal', 'Fraction', 'inspect.isclass', 'inspect.getmembers',
    'types.ModuleType', 'sys.exit', 'abc.abstractmethod', 'unpack', 'pack', 'select.select',
    'socketserver.ThreadingTCPServer', 'socketserver.ThreadingUDPServer', 'ThreadingTCPServer',
    'ThreadingUDPServer', 'BaseRequestHandler', 'logging.basicConfig', 'logging.Formatter',
    'RotatingFileHandler', 'logging.handlers.RotatingFileHandler', 'signal.signal', 'uuid.uuid4',
    'string.ascii_letters', 'binascii.hexlify', 'binascii.unhexlify', 'codecs.encode', 'codecs.decode',
}
THREADLIKE = {'Thread', 'threading.Thread', 'Timer', 'threading.Timer', 'Process',
              'multiprocessing.Process'}
EXTERNAL_MUTATING = {'random.shuffle', 'shuffle', 'bisect.insort', 'insort', 'heapq.heappush',
                     'heapq.heappop', 'heappush', 'heappop', 'setattr', 'delattr'}


def dotted(e):
    if isinstance(e, ast.Name):
        return e.id
    if isinstance(e, ast.Attribute):
        b = dotted(e.value)
        return None if b is None else b + '.' + e.attr
    return None


# ---------------------------------------------------------------------------
class Mod:
    def __init__(self, name, path, tree):
        self.name, self.path, self.tree = name, path, tree
        self.imports = {}      # local name -> ('mod', modname) | ('name', modname, name) | ('ext', dotted)
        self.gkind = {}        # module-level name -> 'imm' | 'flat' | 'nested'
        self.gvalue = {}       # module-level name -> last value expr
        self.classes = {}      # name -> Cls
        self.funcs = {}        # name -> Fn


class Cls:
    def __init__(self, mod, node):
        self.mod, self.node, self.name = mod, node, node.name
        self.qual = mod.name + '.' + node.name
        self.bases = []        # Cls objects (scanned) in order
        self.ext_bases = []
        self.ckind = {}        # class-body name -> kind
        self.cvalue = {}
        self.methods = {}      # name -> Fn   (property getters under their name; setters under name+'.setter')
        self.props = set()
        self.mro = []
        self.factory = False


class Fn:
    def __init__(self, mod, cls, node, qual):
        self.mod, self.cls, self.node, self.qual = mod, cls, node, qual
        decos = [dotted(d) or '' for d in node.decorator_list]
        self.static = 'staticmethod' in decos
        self.classm = 'classmethod' in decos or node.name == '__new__'
        self.prop = 'property' in decos
        self.setter = any(d.endswith('.setter') for d in decos)
        a = node.args
        self.params = [x.arg for x in a.posonlyargs + a.args]
        self.kwonly = [x.arg for x in a.kwonlyargs]
        self.vararg = a.vararg.arg if a.vararg else None
        self.kwarg = a.kwarg.arg if a.kwarg else None
        self.is_method = cls is not None and not self.static
        # summary
        self.mut = set()       # atoms mutated in place
        self.edges = set()     # ((kind, attr), atom): kind 'S' (self.attr = / self.attr container stores) or 'X'
        self.dels = set()      # attrs deleted through self
        self.srebind = set()   # shared keys rebound
        self.returns = set()
        self.selfstores = set()   # attrs assigned through self
        self.defaults = {}     # param -> key for mutable defaults


class World:
    def __init__(self, repo):
        self.repo = repo
        self.mods = {}
        self.sdepth = {}       # shared key -> container depth of the literal (1 = flat) or None
        self.skind = {}        # shared key -> 'flat' | 'nested'
        self.sorigin = {}      # shared key -> (module, class or None, name)
        self.notes = []
        self.whitelist = []    # (key, justification)
        self._counts = {}
        self.atypes = {}       # (Cls, attr) -> type tags of the values stored in the attribute
        self.aetypes = {}      # (Cls, attr) -> type tags of the elements of the container stored there
        self.types_changed = False

    # -- loading -----------------------------------------------------------------------
    def load(self):
        root = os.path.join(self.repo, 'simulators')
        for dp, dn, fn in sorted(os.walk(root)):
            dn.sort()
            for f in sorted(fn):
                if not f.endswith('.py'):
                    continue
                p = os.path.join(dp, f)
                rel = os.path.relpath(p, self.repo)[:-3].replace(os.sep, '.')
                if rel.endswith('.__init__'):
                    rel = rel[:-9]
                with open(p, encoding='utf-8') as fh:
                    src = fh.read()
                try:
                    tree = ast.parse(src)
                except SyntaxError as ex:
                    raise GenError('cannot parse %s: %s' % (p, ex))
                self.mods[rel] = Mod(rel, p, tree)
        for m in self.mods.values():
            self.scan_module(m)
        for m in self.mods.values():
            for c in m.classes.values():
                self.link_bases(c)
        for m in self.mods.values():
            for c in m.classes.values():
                c.mro = self.linearize(c, [])
        for m in self.mods.values():
            self.classify_module(m)
        self.attr_facts()

    def resolve_import(self, m, node):
        if isinstance(node, ast.Import):
            for al in node.names:
                local = al.asname or al.name.split('.')[0]
                if al.name.startswith('simulators'):
                    if al.asname:
                        m.imports[local] = ('mod', al.name)
                    else:
                        m.imports[local] = ('mod', 'simulators')
                else:
                    m.imports[local] = ('ext', al.name if al.asname else al.name.split('.')[0])
        else:
            base = node.module or ''
            if node.level:
                parts = m.name.split('.')
                is_pkg = m.path.endswith('__init__.py')
                up = parts if is_pkg else parts[:-1]
                up = up[:len(up) - (node.level - 1)]
                base = '.'.join(up + ([base] if base else []))
            for al in node.names:
                local = al.asname or al.name
                if base.startswith('simulators'):
                    full = base + '.' + al.name
                    if full in self.mods:
                        m.imports[local] = ('mod', full)
                    else:
                        m.imports[local] = ('name', base, al.name)
                else:
                    m.imports[local] = ('ext', (base + '.' if base else '') + al.name)

    def top_statements(self, body):
        """module-level statements, looking through if/try/with/for at module level"""
        for n in body:
            if isinstance(n, (ast.If, ast.For, ast.While, ast.With)):
                yield from self.top_statements(n.body)
                yield from self.top_statements(getattr(n, 'orelse', []))
            elif isinstance(n, ast.Try):
                yield from self.top_statements(n.body)
                for h in n.handlers:
                    yield from self.top_statements(h.body)
                yield from self.top_statements(n.orelse)
                yield from self.top_statements(n.finalbody)
            else:
                yield n

    def scan_module(self, m):
        for n in self.top_statements(m.tree.body):
            if isinstance(n, (ast.Import, ast.ImportFrom)):
                self.resolve_import(m, n)
            elif isinstance(n, ast.ClassDef):
                c = Cls(m, n)
                m.classes[n.name] = c
                for b in n.body:
                    if isinstance(b, (ast.FunctionDef, ast.AsyncFunctionDef)):
                        f = Fn(m, c, b, c.qual + '.' + b.name)
                        if f.setter:
                            c.methods[b.name + '.setter'] = f
                        else:
                            c.methods[b.name] = f
                        if f.prop:
                            c.props.add(b.name)
                    elif isinstance(b, ast.ClassDef):
                        raise GenError('nested class %s in %s' % (b.name, c.qual))
            elif isinstance(n, (ast.FunctionDef, ast.AsyncFunctionDef)):
                m.funcs[n.name] = Fn(m, None, n, m.name + '.' + n.name)

    def lookup_class(self, m, name):
        """class object for a (dotted) name used in module m"""
        if name is None:
            return None
        parts = name.split('.')
        if parts[0] in m.classes and len(parts) == 1:
            return m.classes[parts[0]]
        imp = m.imports.get(parts[0])
        if imp and imp[0] == 'name' and len(parts) == 1:
            tm = self.mods.get(imp[1])
            if tm:
                if imp[2] in tm.classes:
                    return tm.classes[imp[2]]
                return self.lookup_class(tm, imp[2]) if imp[2] in tm.imports else None
        if imp and imp[0] == 'mod':
            modname = imp[1]
            rest = parts[1:]
            while rest and (modname + '.' + rest[0]) in self.mods:
                modname += '.' + rest[0]
                rest = rest[1:]
            tm = self.mods.get(modname)
            if tm and len(rest) == 1 and rest[0] in tm.classes:
                return tm.classes[rest[0]]
        return None

    def link_bases(self, c):
        for b in c.node.bases:
            bc = self.lookup_class(c.mod, dotted(b))
            if bc is not None:
                c.bases.append(bc)
            else:
                c.ext_bases.append(dotted(b) or ast.dump(b))
        for kw in c.node.keywords:
            if kw.arg != 'metaclass':
                raise GenError('class keyword %s in %s' % (kw.arg, c.qual))

    def linearize(self, c, stack):
        if c in stack:
            raise GenError('inheritance cycle at %s' % c.qual)
        out = [c]
        for b in c.bases:
            for x in self.linearize(b, stack + [c]):
                if x not in out:
                    out.append(x)
        return out

    # -- classification of import-time values -------------------------------------------------
    def kind_of(self, e, m, env):
        """'imm' | 'flat' | 'nested' for a module-level / class-body / default-argument expression.
        env: names bound earlier in the same scope -> kind"""
        K = lambda x: self.kind_of(x, m, env)

        def worst(kinds, container=False):
            kinds = list(kinds)
            if container:
                return 'flat' if all(k == 'imm' for k in kinds) else 'nested'
            if all(k == 'imm' for k in kinds):
                return 'imm'
            return 'flat' if all(k in ('imm', 'flat') for k in kinds) else 'nested'

        if isinstance(e, (ast.Constant, ast.JoinedStr, ast.Lambda)):
            return 'imm'
        if isinstance(e, ast.Name):
            if e.id in env:
                return env[e.id]
            if e.id in self.BUILTIN_LEAVES:
                return 'imm'
            if e.id in m.gkind:
                return m.gkind[e.id]
            if e.id in m.classes or e.id in m.funcs:
                return 'imm'
            imp = m.imports.get(e.id)
            if imp:
                if imp[0] == 'name':
                    tm = self.mods.get(imp[1])
                    if tm and imp[2] in tm.gkind:
                        return tm.gkind[imp[2]]
                return 'imm'   # modules, classes, functions
            if e.id in ('True', 'False', 'None', '__file__', '__name__'):
                return 'imm'
            return 'nested'
        if isinstance(e, ast.Attribute):
            d = dotted(e)
            if d:
                head = d.split('.')[0]
                imp = m.imports.get(head)
                if imp and imp[0] == 'ext':
                    return 'imm'           # constants of external modules (socket.SOCK_STREAM, abc.ABCMeta)
                c = self.lookup_class(m, '.'.join(d.split('.')[:-1]))
                if c is not None:
                    for k in c.mro or [c]:
                        if e.attr in k.ckind:
                            return k.ckind[e.attr]
                    return 'imm'
            return 'nested'
        if isinstance(e, ast.Tuple):
            ks = [K(x) for x in e.elts]
            return 'imm' if all(k == 'imm' for k in ks) else 'nested'
        if isinstance(e, (ast.List, ast.Set)):
            return worst([K(x) for x in e.elts], container=True)
        if isinstance(e, ast.Dict):
            return worst([K(x) for x in e.keys if x is not None] + [K(x) for x in e.values], container=True)
        if isinstance(e, (ast.ListComp, ast.SetComp, ast.DictComp, ast.GeneratorExp)):
            env2 = dict(env)
            for g in e.generators:
                ik = K(g.iter)
                for t in ast.walk(g.target):
                    if isinstance(t, ast.Name):
                        env2[t.id] = 'imm' if ik in ('imm', 'flat') else 'nested'
            elts = [e.key, e.value] if isinstance(e, ast.DictComp) else [e.elt]
            ks = [self.kind_of(x, m, env2) for x in elts]
            return 'flat' if all(k == 'imm' for k in ks) else 'nested'
        if isinstance(e, (ast.BinOp,)):
            return worst([K(e.left), K(e.right)])
        if isinstance(e, ast.UnaryOp):
            return K(e.operand)
        if isinstance(e, ast.BoolOp):
            return worst([K(x) for x in e.values])
        if isinstance(e, ast.Compare):
            return 'imm'
        if isinstance(e, ast.IfExp):
            return worst([K(e.body), K(e.orelse)])
        if isinstance(e, ast.Subscript):
            k = K(e.value)
            return 'imm' if k in ('imm', 'flat') else 'nested'
        if isinstance(e, ast.Call):
            d = dotted(e.func)
            if d in IMM_CALLS or (d or '').startswith('os.path.') or (d or '').startswith('os.environ.'):
                if d == 'tuple' and e.args and K(e.args[0]) == 'nested':
                    return 'nested'
                return 'imm'
            if d in ('list', 'dict', 'set', 'sorted'):
                if not e.args:
                    return 'flat'
                a = e.args[0]
                if isinstance(a, ast.Call) and dotted(a.func) in ('zip', 'range', 'map', 'enumerate', 'reversed'):
                    ks = [K(x) for x in a.args]
                    return 'flat' if all(k in ('imm', 'flat') for k in ks) else 'nested'
                return 'flat' if K(a) in ('imm', 'flat') else 'nested'
            return 'nested'    # any other call: an object we know nothing about
        if isinstance(e, ast.Starred):
            return K(e.value)
        raise GenError('import-time expression %s in %s' % (type(e).__name__, m.name))

    BUILTIN_LEAVES = {'int', 'float', 'str', 'bool', 'bytes', 'None', 'True', 'False', 'complex'}

    def depth_of(self, e, m, env):
        """number of container levels of an import-time literal above its immutable leaves
        (1 = flat); None when unknown"""
        if isinstance(e, (ast.List, ast.Set, ast.Tuple)):
            subs = list(e.elts)
        elif isinstance(e, ast.Dict):
            if any(k is None for k in e.keys):
                return None
            subs = list(e.values)
        else:
            return None
        d = 0
        for x in subs:
            if isinstance(x, ast.Name) and x.id in self.BUILTIN_LEAVES:
                continue
            try:
                k = self.kind_of(x, m, env)
            except GenError:
                return None
            if k == 'imm':
                continue
            dx = self.depth_of(x, m, env)
            if dx is None:
                return None
            d = max(d, dx)
        return d + 1

    def classify_scope(self, m, body, kinds, values, env_extra=None):
        env = dict(env_extra or {})
        for n in body:
            if isinstance(n, ast.Assign):
                k = self.kind_of(n.value, m, env)
                for t in n.targets:
                    self.bind_target(t, k, n.value, env, kinds, values, m)
            elif isinstance(n, ast.AnnAssign):
                if n.value is not None:
                    k = self.kind_of(n.value, m, env)
                    self.bind_target(n.target, k, n.value, env, kinds, values, m)
            elif isinstance(n, ast.AugAssign):
                if isinstance(n.target, ast.Name):
                    old = env.get(n.target.id, 'imm')
                    k = self.kind_of(n.value, m, env)
                    new = old if k == 'imm' else ('nested' if 'nested' in (old, k) else 'flat')
                    env[n.target.id] = kinds[n.target.id] = new
                else:
                    raise GenError('import-time augmented assignment to %s in %s'
                                   % (ast.unparse(n.target), m.name))
        return env

    def bind_target(self, t, k, value, env, kinds, values, m):
        if isinstance(t, ast.Name):
            cnt = self._counts.setdefault(id(kinds), {})
            cnt[t.id] = cnt.get(t.id, 0) + 1
            if t.id in kinds and kinds[t.id] != 'imm' and k == 'imm':
                k = kinds[t.id]     # once mutable, always listed
            env[t.id] = kinds[t.id] = k
            values[t.id] = value
        elif isinstance(t, (ast.Tuple, ast.List)):
            for x in t.elts:
                self.bind_target(x, 'imm' if k in ('imm', 'flat') else 'nested', value, env, kinds, values, m)
        elif isinstance(t, (ast.Subscript, ast.Attribute)):
            base = t.value
            while isinstance(base, (ast.Subscript, ast.Attribute)):
                base = base.value
            if isinstance(base, ast.Name) and base.id in kinds:
                if k != 'imm':
                    kinds[base.id] = env[base.id] = 'nested'
            else:
                raise GenError('import-time store to %s in %s' % (ast.unparse(t), m.name))
        else:
            raise GenError('import-time target %s in %s' % (type(t).__name__, m.name))

    def classify_module(self, m):
        if getattr(m, '_classified', False):
            return
        m._classified = True
        # modules we import names from first
        for imp in m.imports.values():
            if imp[0] == 'name' and imp[1] in self.mods:
                self.classify_module(self.mods[imp[1]])
        stmts = list(self.top_statements(m.tree.body))
        genv = self.classify_scope(m, stmts, m.gkind, m.gvalue)
        m.gassigned = self._counts.get(id(m.gkind), {})
        for name, k in m.gkind.items():
            if k != 'imm':
                key = 'G:%s.%s' % (m.name, name)
                self.skind[key] = k
                self.sorigin[key] = (m.name, None, name)
                self.sdepth[key] = self.depth_of(m.gvalue.get(name), m, genv) if m.gassigned.get(name) == 1 else None
        for c in m.classes.values():
            for b in c.bases:
                self.classify_module(b.mod)
            self.classify_scope(m, c.node.body, c.ckind, c.cvalue)
            c.cassigned = self._counts.get(id(c.ckind), {})
            for name, k in c.ckind.items():
                if k != 'imm':
                    key = 'C:%s.%s' % (c.qual, name)
                    self.skind[key] = k
                    self.sorigin[key] = (m.name, c.name, name)
                    self.sdepth[key] = self.depth_of(c.cvalue.get(name), m, dict(c.ckind)) \
                        if c.cassigned.get(name) == 1 else None
        for f in self.all_functions(m):
            a = f.node.args
            pos = a.posonlyargs + a.args
            env = dict(genv)
            if f.cls is not None:
                env.update(f.cls.ckind)
            for arg, d in zip(pos[len(pos) - len(a.defaults):], a.defaults):
                self.default(f, arg.arg, d, env)
            for arg, d in zip(a.kwonlyargs, a.kw_defaults):
                if d is not None:
                    self.default(f, arg.arg, d, env)

    def default(self, f, pname, d, genv):
        k = self.kind_of(d, f.mod, genv)
        if k != 'imm':
            key = 'D:%s.%s' % (f.qual, pname)
            self.skind[key] = k
            self.sorigin[key] = (f.mod.name, f.cls.name if f.cls else None, f.node.name + '(' + pname + ')')
            f.defaults[pname] = key

    def all_functions(self, m):
        for f in m.funcs.values():
            yield f
        for c in m.classes.values():
            for f in c.methods.values():
                yield f

    def functions(self):
        for m in self.mods.values():
            yield from self.all_functions(m)

    def classes(self):
        for m in self.mods.values():
            for c in m.classes.values():
                yield c

    # -- attribute facts --------------------------------------------------------------------
    def attr_facts(self):
        """per class: attributes stored through self anywhere in its methods; per attribute name:
        whether every binding (class-level and through self) is immutable / flat"""
        self.stores = {}     # Cls -> {attr: [value exprs]}
        for c in self.classes():
            st = {}
            for f in c.methods.values():
                selfname = f.params[0] if (f.is_method and f.params) else None
                for n in ast.walk(f.node):
                    tg = []
                    if isinstance(n, ast.Assign):
                        tg = [(t, n.value) for t in n.targets]
                    elif isinstance(n, ast.AnnAssign) and n.value is not None:
                        tg = [(n.target, n.value)]
                    elif isinstance(n, ast.AugAssign):
                        tg = [(n.target, None)]
                    elif isinstance(n, (ast.For, ast.comprehension)):
                        tg = [(n.target, None)]
                    elif isinstance(n, ast.With):
                        tg = [(i.optional_vars, None) for i in n.items if i.optional_vars is not None]
                    for t, v in tg:
                        for x in ([t] if not isinstance(t, (ast.Tuple, ast.List)) else ast.walk(t)):
                            if isinstance(x, ast.Attribute) and isinstance(x.value, ast.Name) \
                                    and x.value.id == selfname and isinstance(x.ctx, ast.Store):
                                st.setdefault(x.attr, []).append(v if x is t else None)
            self.stores[c] = st
        self.family = {}     # Cls -> classes related by inheritance (ancestors, descendants and their ancestors)
        allc = list(self.classes())
        for c in allc:
            fam = set(c.mro)
            for d in allc:
                if c in d.mro:
                    fam.update(d.mro)
            self.family[c] = fam

    # type tags: 'imm' | 'flat' | 'container' | 'ext' | ('inst', Cls) | 'unknown'
    def add_types(self, table, key, tags):
        cur = table.setdefault(key, set())
        for t in tags:
            if t not in cur:
                cur.add(t)
                self.types_changed = True

    def class_value_types(self, k, a):
        kd = k.ckind.get(a)
        if kd is None:
            return set(), set()
        if kd == 'imm':
            return {'imm'}, set()
        if kd == 'flat':
            return {'flat'}, {'imm'}
        v = k.cvalue.get(a)
        if isinstance(v, (ast.List, ast.Dict, ast.Set, ast.ListComp, ast.DictComp, ast.SetComp)):
            return {'container'}, {'unknown'}
        return {'unknown'}, {'unknown'}

    def types_of(self, c, a):
        out = set()
        for k in self.family[c]:
            out |= self.atypes.get((k, a), set())
            out |= self.class_value_types(k, a)[0]
            if a in k.methods or (a + '.setter') in k.methods:
                out.add('unknown')
        return out or {'unknown'}

    def etypes_of(self, c, a):
        out = set()
        for k in self.family[c]:
            out |= self.aetypes.get((k, a), set())
            out |= self.class_value_types(k, a)[1]
        return out or {'unknown'}

    def has_attr(self, c, a):
        for k in self.family[c]:
            if a in k.ckind or a in self.stores[k] or a in k.methods or (a + '.setter') in k.methods:
                return True
        return False

    def class_binding(self, c, a):
        """(defining class, kind) of the class-level binding of a seen from class c, or None"""
        for k in c.mro:
            if a in k.ckind:
                return k, k.ckind[a]
            if a in k.methods:
                return k, 'method'
        return None

    def imm_expr(self, e, c, f):
        """expression provably immutable inside a method of class c"""
        if isinstance(e, (ast.Constant, ast.JoinedStr)):
            return True
        if isinstance(e, ast.Name):
            if e.id in ('True', 'False', 'None'):
                return True
            return f.mod.gkind.get(e.id) == 'imm' and e.id not in self.locals_of(f)
        if isinstance(e, ast.Attribute) and isinstance(e.value, ast.Name) and f.is_method and f.params \
                and e.value.id == f.params[0]:
            return self.attr_kind(c, e.attr) == 'imm'
        if isinstance(e, (ast.BinOp,)):
            return self.imm_expr(e.left, c, f) and self.imm_expr(e.right, c, f)
        if isinstance(e, ast.UnaryOp):
            return self.imm_expr(e.operand, c, f)
        if isinstance(e, ast.Compare):
            return True
        if isinstance(e, ast.Tuple):
            return all(self.imm_expr(x, c, f) for x in e.elts)
        if isinstance(e, ast.Call) and dotted(e.func) in IMM_CALLS - {'getattr', 'tuple', 'min', 'max', 'sum'}:
            return True
        if isinstance(e, ast.Subscript) and not isinstance(e.slice, ast.Slice) and self.flat_source(e.value, c, f):
            return True
        return False

    def name_key(self, x, f):
        """shared key a module-level name / imported name denotes, or None"""
        if isinstance(x, ast.Name) and x.id not in self.locals_of(f):
            if x.id in f.mod.gkind:
                return 'G:%s.%s' % (f.mod.name, x.id)
            imp = f.mod.imports.get(x.id)
            if imp and imp[0] == 'name':
                return 'G:%s.%s' % (imp[1], imp[2])
        return None

    def finite_depth_attr(self, c, a):
        """attribute a of class c always denotes the class-level literal, whose leaves are immutable"""
        for k in self.family[c]:
            if a in self.stores[k]:
                return False
        b = self.class_binding(c, a)
        if b is None or b[1] == 'method':
            return False
        return b[1] in ('imm', 'flat') or self.sdepth.get('C:%s.%s' % (b[0].qual, a)) is not None

    def flat_expr(self, e, c, f):
        """expression that creates a new container whose elements are immutable"""
        if isinstance(e, (ast.List, ast.Set)):
            return all(self.imm_expr(x, c, f) for x in e.elts)
        if isinstance(e, ast.Dict):
            return all(x is not None and self.imm_expr(x, c, f) for x in e.keys) and \
                all(self.imm_expr(x, c, f) for x in e.values)
        if isinstance(e, ast.BinOp) and isinstance(e.op, (ast.Mult, ast.Add)):
            l, r = e.left, e.right
            ok = lambda x: self.flat_expr(x, c, f) or self.imm_expr(x, c, f)
            return ok(l) and ok(r) and (self.flat_expr(l, c, f) or self.flat_expr(r, c, f))
        src = self.copy_source(e)
        if src is not None:
            return self.flat_source(src, c, f)
        if isinstance(e, ast.Subscript) and not isinstance(e.slice, ast.Slice):
            key = self.name_key(e.value, f)
            if key is not None and self.sdepth.get(key) == 2:
                return True        # an element of a dict/list of flat containers
        return False

    @staticmethod
    def copy_source(e):
        """X for list(X) / dict(X) / set(X) / sorted(X) / X.copy() / X[:] / copy.copy(X)"""
        if isinstance(e, ast.Call):
            d = dotted(e.func)
            if d in ('list', 'dict', 'set', 'sorted', 'copy.copy', 'copy', 'deepcopy', 'copy.deepcopy') \
                    and len(e.args) == 1 and not e.keywords:
                return e.args[0]
            if isinstance(e.func, ast.Attribute) and e.func.attr == 'copy' and not e.args:
                return e.func.value
        if isinstance(e, ast.Subscript) and isinstance(e.slice, ast.Slice) and e.slice.lower is None \
                and e.slice.upper is None and e.slice.step is None:
            return e.value
        return None

    def flat_source(self, x, c, f):
        """x denotes a container whose elements are immutable (class-level flat attribute read
        through self or through the class, or a flat module-level name)"""
        if isinstance(x, ast.Attribute) and isinstance(x.value, ast.Name):
            if f.is_method and f.params and x.value.id == f.params[0]:
                return self.attr_kind(c, x.attr) in ('imm', 'flat')
            k = self.lookup_class(f.mod, x.value.id)
            if k is not None:
                b = self.class_binding(k, x.attr)
                return b is not None and b[1] in ('imm', 'flat')
        if isinstance(x, ast.Name) and x.id not in self.locals_of(f):
            return f.mod.gkind.get(x.id) in ('imm', 'flat')
        return self.flat_expr(x, c, f)

    def locals_of(self, f):
        if not hasattr(f, '_locals'):
            s = set(f.params + f.kwonly + [x for x in (f.vararg, f.kwarg) if x])
            for n in ast.walk(f.node):
                if isinstance(n, ast.Name) and isinstance(n.ctx, ast.Store):
                    s.add(n.id)
            f._locals = s
        return f._locals

    def attr_kind(self, c, a, _seen=None):
        """'imm' | 'flat' | 'any' : what attribute a of an instance of (the family of) c can hold.
        imm: every binding is an immutable value; flat: every binding is a container of immutables."""
        key = (c, a)
        if not hasattr(self, '_ak'):
            self._ak = {}
        if key in self._ak:
            return self._ak[key]
        _seen = _seen or set()
        if key in _seen:
            return 'imm'          # optimistic on cycles (greatest fixpoint)
        _seen = _seen | {key}
        kinds = []
        found = False
        for k in self.family[c]:
            if a in k.ckind:
                found = True
                kinds.append({'imm': 'imm', 'flat': 'flat'}.get(k.ckind[a], 'any'))
            if a in k.methods or (a + '.setter') in k.methods:
                found = True
                kinds.append('any')
            for v in self.stores[k].get(a, []):
                found = True
                if v is None:
                    kinds.append('any')
                    continue
                fn = self.enclosing_fn(k, v)
                saved = self._ak.get(key)
                self._ak[key] = 'imm'      # assume while evaluating self-references such as list(self.a)
                try:
                    if self.imm_expr(v, k, fn):
                        kinds.append('imm')
                    elif self.flat_expr(v, k, fn):
                        kinds.append('flat')
                    else:
                        kinds.append('any')
                finally:
                    if saved is None:
                        del self._ak[key]
                    else:
                        self._ak[key] = saved
        if not found or 'any' in kinds:
            r = 'any'
        elif 'flat' in kinds:
            r = 'flat'
        else:
            r = 'imm'
        # a flat verdict obtained under the optimistic assumption must also hold when the
        # attribute is only flat (list(self.a) of a flat a is flat): fine by construction
        self._ak[key] = r
        return r

    def enclosing_fn(self, k, v):
        if not hasattr(self, '_encl'):
            self._encl = {}
            for c in self.classes():
                for f in c.methods.values():
                    for n in ast.walk(f.node):
                        self._encl[id(n)] = f
        return self._encl[id(v)]


# ---------------------------------------------------------------------------
# function analysis

class Analyzer:
    def __init__(self, W):
        self.W = W
        self.by_name = {}      # method name -> [Fn]
        for f in W.functions():
            if f.cls is not None:
                self.by_name.setdefault(f.node.name, []).append(f)
        self.changed = False

    # -- helpers ---------------------------------------------------------------------------
    def elem(self, atoms, fn):
        """atoms of something obtained *from inside* an object with these atoms"""
        out = set()
        for a in atoms:
            if a[0] == 'K':
                d = a[2] + 1
                depth = self.W.sdepth.get(a[1])
                if self.W.skind.get(a[1]) == 'flat':
                    depth = 1
                if depth is not None and d >= depth:
                    continue          # reached the immutable leaves
                out.add(('K', a[1], min(d, 3)))
                continue
            if a[0] == 'P':
                out.add(('P', a[1], min(a[2] + 1, 3)))
                continue
            if a[0] == 'S' and fn.cls is not None and self.W.attr_kind(fn.cls, a[1]) in ('imm', 'flat'):
                continue
            out.add(a)
        return out

    def add(self, s, items):
        for x in items:
            if x not in s:
                s.add(x)
                self.changed = True

    def find_method(self, c, name):
        for k in c.mro:
            if name in k.methods:
                return k.methods[name]
        return None

    def by_name_inst(self, tags, name):
        """scanned methods called `name` that a receiver with these type tags can have"""
        out = []
        insts = [t[1] for t in tags if isinstance(t, tuple)]
        for k in insts:
            for x in self.W.family[k]:
                g = x.methods.get(name)
                if g is not None and g not in out:
                    out.append(g)
        if 'unknown' in tags or 'self' in tags:
            for g in self.by_name.get(name, []):
                if g not in out:
                    out.append(g)
        return out

    # -- one function ------------------------------------------------------------------------
    def analyze(self, f):
        A = FnAnalysis(self, f)
        A.run()


class FnAnalysis:
    def __init__(self, an, f):
        self.an, self.W, self.f = an, an.W, f
        self.m = f.mod
        self.c = f.cls
        self.env = {}
        self.selfname = f.params[0] if (f.cls is not None and not f.static and f.params) else None
        self.is_cls = f.classm
        self.globals_decl = set()
        for i, p in enumerate(f.params):
            if i == 0 and self.selfname:
                continue
            self.env[p] = {('P', i, 0)}
        for p in f.kwonly:
            self.env[p] = {('P', 'kw:' + p, 0)}
        if f.vararg:
            self.env[f.vararg] = {('P', '*', 0)}
        if f.kwarg:
            self.env[f.kwarg] = {('P', '**', 0)}
        for p, key in f.defaults.items():
            self.env.setdefault(p, set()).add(('K', key, 0))
        self.locals = self.W.locals_of(f)
        self.vt = {}
        self.vet = {}

    # -- a light type inference, only used to pick the right callee for x.m(...) -------------
    def texpr(self, e):
        W, c = self.W, self.c
        if isinstance(e, (ast.Constant, ast.JoinedStr, ast.Compare)):
            return {'imm'}
        if isinstance(e, ast.Name):
            if e.id == self.selfname:
                return {'class'} if self.is_cls else {'self'}
            if e.id in self.locals:
                return set(self.vt.get(e.id, ())) or {'unknown'}
            if e.id in self.m.classes:
                return {'class'}
            kd = self.m.gkind.get(e.id)
            if kd == 'imm':
                return {'imm'}
            if kd == 'flat':
                return {'flat'}
            if kd == 'nested':
                v = self.m.gvalue.get(e.id)
                if isinstance(v, (ast.List, ast.Dict, ast.Set, ast.ListComp, ast.DictComp, ast.SetComp)):
                    return {'container'}
            return {'unknown'}
        if isinstance(e, ast.Attribute):
            bt = self.texpr(e.value)
            out = set()
            for t in bt:
                if t == 'self' and c is not None:
                    out |= W.types_of(c, e.attr)
                elif isinstance(t, tuple):
                    out |= W.types_of(t[1], e.attr)
                else:
                    out.add('unknown')
            return out or {'unknown'}
        if isinstance(e, ast.Subscript):
            if isinstance(e.slice, ast.Slice):
                return self.texpr(e.value)
            return self.telem(e.value)
        if isinstance(e, (ast.List, ast.Dict, ast.Set, ast.ListComp, ast.DictComp, ast.SetComp,
                          ast.GeneratorExp, ast.Tuple)):
            return {'container'}
        if isinstance(e, ast.BinOp):
            l, r = self.texpr(e.left), self.texpr(e.right)
            if l <= {'imm'} and r <= {'imm'}:
                return {'imm'}
            if 'unknown' not in l | r and not any(isinstance(t, tuple) for t in l | r):
                return {'container'}
            return {'unknown'}
        if isinstance(e, ast.UnaryOp):
            return {'imm'}
        if isinstance(e, (ast.IfExp,)):
            return self.texpr(e.body) | self.texpr(e.orelse)
        if isinstance(e, ast.BoolOp):
            out = set()
            for x in e.values:
                out |= self.texpr(x)
            return out
        if isinstance(e, ast.Call):
            d = dotted(e.func)
            if isinstance(e.func, ast.Attribute):
                m = e.func.attr
                if m in ('get', 'pop', 'setdefault', 'popleft', 'popitem') and m not in self.an.by_name_inst(self.texpr(e.func.value), m):
                    return self.telem(e.func.value)
                if m in ('values', 'items', 'keys', 'copy'):
                    bt = self.texpr(e.func.value)
                    if 'unknown' not in bt:
                        return {'container'}
                if m in READERS_IMM:
                    return {'imm'}
            k = W.lookup_class(self.m, d) if d and d.split('.')[0] not in self.locals else None
            if k is not None:
                return {('inst', k)}
            if d in ('list', 'dict', 'set', 'sorted', 'zip', 'enumerate', 'map', 'filter', 'reversed',
                     'bytearray', 'tuple'):
                return {'container'}
            if d in IMM_CALLS and d != 'getattr':
                return {'imm'}
            if d is not None:
                head = d.split('.')[0]
                if head not in self.locals and head != self.selfname:
                    imp = self.m.imports.get(head)
                    if imp and imp[0] == 'ext':
                        return {'ext'}
                    if imp is None and head not in self.m.classes and head not in self.m.funcs \
                            and head not in self.m.gkind:
                        return {'unknown'}
            return {'unknown'}
        if isinstance(e, ast.Lambda):
            return {'imm'}
        return {'unknown'}

    def telem(self, e):
        W, c = self.W, self.c
        if isinstance(e, ast.Name):
            if e.id in self.locals:
                return set(self.vet.get(e.id, ())) or {'unknown'}
            kd = self.m.gkind.get(e.id)
            if kd in ('imm', 'flat'):
                return {'imm'}
            return {'unknown'}
        if isinstance(e, ast.Attribute):
            bt = self.texpr(e.value)
            out = set()
            for t in bt:
                if t == 'self' and c is not None:
                    out |= W.etypes_of(c, e.attr)
                elif isinstance(t, tuple):
                    out |= W.etypes_of(t[1], e.attr)
                else:
                    out.add('unknown')
            return out or {'unknown'}
        if isinstance(e, (ast.List, ast.Set, ast.Tuple)):
            out = set()
            for x in e.elts:
                out |= self.texpr(x.value if isinstance(x, ast.Starred) else x)
            return out or {'imm'}
        if isinstance(e, ast.Dict):
            out = set()
            for x in e.values:
                out |= self.texpr(x)
            return out or {'imm'}
        if isinstance(e, (ast.ListComp, ast.SetComp, ast.GeneratorExp)):
            self.bind_generators(e.generators)
            return self.texpr(e.elt)
        if isinstance(e, ast.DictComp):
            self.bind_generators(e.generators)
            return self.texpr(e.value)
        if isinstance(e, ast.BinOp):
            out = set()
            for x in (e.left, e.right):
                if 'container' in self.texpr(x) or 'flat' in self.texpr(x):
                    out |= self.telem(x)
            return out or {'unknown'}
        if isinstance(e, ast.Call):
            d = dotted(e.func)
            if d in ('list', 'sorted', 'set', 'tuple', 'reversed', 'dict') and len(e.args) == 1:
                return self.telem(e.args[0])
            if isinstance(e.func, ast.Attribute) and e.func.attr in ('values', 'copy', 'items') and not e.args:
                return self.telem(e.func.value)
            if isinstance(e.func, ast.Attribute) and e.func.attr == 'keys':
                return {'imm'}
            if d in ('range', 'enumerate', 'zip'):
                out = set()
                for a in e.args:
                    out |= self.telem(a)
                return (out | {'imm'}) if d != 'range' else {'imm'}
        if isinstance(e, ast.Subscript) and isinstance(e.slice, ast.Slice):
            return self.telem(e.value)
        return {'unknown'}

    def bind_generators(self, gens):
        for g in gens:
            et = self.telem(g.iter)
            for t in ast.walk(g.target):
                if isinstance(t, ast.Name):
                    self.vt.setdefault(t.id, set()).update(et)

    def note_types(self, t, value_expr, elem_of=None):
        """record type tags for an assignment target"""
        W = self.W
        if value_expr is None and elem_of is None:
            tags, etags = {'unknown'}, {'unknown'}
        elif elem_of is not None:
            tags, etags = self.telem(elem_of), {'unknown'}
        else:
            tags, etags = self.texpr(value_expr), self.telem(value_expr)
        if isinstance(t, ast.Name):
            self.vt.setdefault(t.id, set()).update(tags)
            self.vet.setdefault(t.id, set()).update(etags)
        elif isinstance(t, (ast.Tuple, ast.List)):
            for x in t.elts:
                if elem_of is not None:
                    self.note_types(x, None, elem_of=elem_of)
                else:
                    self.note_types(x, None)
        elif isinstance(t, ast.Attribute):
            if isinstance(t.value, ast.Name) and t.value.id == self.selfname and self.c is not None \
                    and not self.is_cls:
                W.add_types(W.atypes, (self.c, t.attr), tags)
                W.add_types(W.aetypes, (self.c, t.attr), etags)
            else:
                for bt in self.texpr(t.value):
                    if isinstance(bt, tuple):
                        W.add_types(W.atypes, (bt[1], t.attr), tags)
                        W.add_types(W.aetypes, (bt[1], t.attr), etags)
        elif isinstance(t, ast.Subscript):
            b = t.value
            if isinstance(b, ast.Attribute) and isinstance(b.value, ast.Name) and b.value.id == self.selfname \
                    and self.c is not None:
                W.add_types(W.aetypes, (self.c, b.attr), tags)
            elif isinstance(b, ast.Name):
                self.vet.setdefault(b.id, set()).update(tags)

    def err(self, node, what):
        raise GenError('%s:%s: %s (%s)' % (self.m.path, getattr(node, 'lineno', '?'), what,
                                           type(node).__name__))

    def run(self):
        for _ in range(3):        # flow-insensitive: iterate so that later bindings reach earlier uses
            before = {k: set(v) for k, v in self.env.items()}
            self.block(self.f.node.body)
            if before == self.env:
                break

    # -- effects -------------------------------------------------------------------------------
    def mut(self, atoms):
        self.an.add(self.f.mut, [a for a in atoms if a[0] != 'SELF'])

    def edge(self, kind, attr, atoms):
        assert kind == 'S'
        self.an.add(self.f.edges, [((kind, attr), a) for a in atoms if a[0] != 'SELF'])

    def store_into(self, container_atoms, value_atoms):
        """the objects denoted by container_atoms now hold references to value_atoms"""
        for c in container_atoms:
            if c[0] == 'S':
                self.edge('S', c[1], value_atoms)
            elif c[0] == 'X':
                self.an.add(self.f.edges, [(('X', c[1], c[2]), a) for a in value_atoms if a[0] != 'SELF'])
            elif c[0] in ('K', 'P'):
                pass   # the mutation itself is recorded by mut()

    def bind(self, name, atoms):
        cur = self.env.setdefault(name, set())
        cur |= set(atoms)

    # -- statements ----------------------------------------------------------------------------
    def block(self, body):
        for s in body:
            self.stmt(s)

    def stmt(self, s):
        f = self.f
        if isinstance(s, ast.Expr):
            self.ev(s.value)
        elif isinstance(s, ast.Assign):
            v = self.ev(s.value)
            for t in s.targets:
                self.note_types(t, s.value)
                self.assign(t, v, s.value)
        elif isinstance(s, ast.AnnAssign):
            if s.value is not None:
                self.note_types(s.target, s.value)
                self.assign(s.target, self.ev(s.value), s.value)
        elif isinstance(s, ast.AugAssign):
            v = self.ev(s.value)
            t = s.target
            if isinstance(t, ast.Name):
                cur = self.ev(ast.Name(id=t.id, ctx=ast.Load()))
                self.mut(cur)                  # x += [..] mutates a list in place
                self.store_into(cur, v)
                self.bind(t.id, v)
            elif isinstance(t, ast.Attribute):
                base = self.ev(t.value)
                cur = self.attr_atoms(t, base)
                self.mut(cur)
                self.store_into(cur, v)
                self.attr_store(t, base, cur | v, None)
            elif isinstance(t, ast.Subscript):
                cont = self.ev(t.value)
                self.ev_slice(t.slice)
                self.mut(cont)
                self.store_into(cont, v)
            else:
                self.err(s, 'augmented assignment target')
        elif isinstance(s, ast.Delete):
            for t in s.targets:
                if isinstance(t, ast.Name):
                    pass
                elif isinstance(t, ast.Attribute):
                    base = self.ev(t.value)
                    if ('SELF',) in base:
                        self.an.add(f.dels, [t.attr])
                    else:
                        self.mut(base)
                elif isinstance(t, ast.Subscript):
                    self.mut(self.ev(t.value))
                    self.ev_slice(t.slice)
                else:
                    self.err(s, 'del target')
        elif isinstance(s, ast.Return):
            if s.value is not None:
                self.an.add(f.returns, self.ev(s.value) - {('SELF',)})
        elif isinstance(s, (ast.If, ast.While)):
            self.ev(s.test)
            self.block(s.body)
            self.block(s.orelse)
        elif isinstance(s, ast.For):
            it = self.ev(s.iter)
            self.note_types(s.target, None, elem_of=s.iter)
            self.assign(s.target, self.an.elem(it, f), None)
            self.block(s.body)
            self.block(s.orelse)
        elif isinstance(s, ast.With):
            for i in s.items:
                v = self.ev(i.context_expr)
                if i.optional_vars is not None:
                    self.note_types(i.optional_vars, None)
                    self.assign(i.optional_vars, v, None)
            self.block(s.body)
        elif isinstance(s, ast.Try):
            self.block(s.body)
            for h in s.handlers:
                self.block(h.body)
            self.block(s.orelse)
            self.block(s.finalbody)
        elif isinstance(s, ast.Raise):
            if s.exc is not None:
                self.ev(s.exc)
            if s.cause is not None:
                self.ev(s.cause)
        elif isinstance(s, ast.Assert):
            self.ev(s.test)
        elif isinstance(s, (ast.Pass, ast.Break, ast.Continue, ast.Import, ast.ImportFrom)):
            pass
        elif isinstance(s, ast.Global):
            self.globals_decl.update(s.names)
        elif isinstance(s, ast.Nonlocal):
            pass
        elif isinstance(s, (ast.FunctionDef, ast.AsyncFunctionDef)):
            # nested function: analysed as part of this one (shares the environment)
            for a in s.args.posonlyargs + s.args.args + s.args.kwonlyargs:
                self.env.setdefault(a.arg, set())
            for d in s.args.defaults + [d for d in s.args.kw_defaults if d is not None]:
                self.ev(d)
            self.block(s.body)
        else:
            self.err(s, 'statement kind not handled')

    def assign(self, t, v, value_expr):
        f = self.f
        if isinstance(t, ast.Name):
            if t.id in self.globals_decl:
                key = 'G:%s.%s' % (self.m.name, t.id)
                self.an.add(f.srebind, [key])
            self.bind(t.id, v)
        elif isinstance(t, (ast.Tuple, ast.List)):
            for x in t.elts:
                self.assign(x, self.an.elem(v, f), None)
        elif isinstance(t, ast.Starred):
            self.assign(t.value, v, None)
        elif isinstance(t, ast.Attribute):
            base = self.ev(t.value)
            self.attr_store(t, base, v, value_expr)
        elif isinstance(t, ast.Subscript):
            cont = self.ev(t.value)
            self.ev_slice(t.slice)
            self.mut(cont)
            self.store_into(cont, v)
        else:
            self.err(t, 'assignment target')

    def attr_store(self, t, base, v, value_expr):
        f = self.f
        v = set(v) - {('SELF',)}
        if ('SELF',) in base:
            self.an.add(f.selfstores, [t.attr])
            self.edge('S', t.attr, v)
            return
        cls_atoms = [a for a in base if a[0] == 'CLS']
        mod_atoms = [a for a in base if a[0] == 'MOD']
        if cls_atoms or mod_atoms:
            for a in cls_atoms:
                self.an.add(f.srebind, ['C:%s.%s' % (a[1], t.attr)])
            for a in mod_atoms:
                self.an.add(f.srebind, ['G:%s.%s' % (a[1], t.attr)])
            return
        # attribute store on some other object: an in-place mutation of that object; if a scanned
        # class has this attribute it is also a rebinding on an instance of that class
        objs = {a for a in base if a[0] in ('S', 'X', 'K', 'P')}
        self.mut(objs)
        self.store_into(objs, v)
        for q in self.other_classes(t.value):
            self.an.add(f.edges, [(('X', t.attr, q), a) for a in v])
            self.an.add(f.edges, [(('X', t.attr, q), ('FRESH',))])

    def other_classes(self, expr):
        """qualified names of the scanned classes the object denoted by expr may be an instance of;
        [None] when unknown (any class that has the attribute)"""
        tags = self.texpr(expr)
        qs = [t[1].qual for t in tags if isinstance(t, tuple)]
        if 'unknown' in tags or not tags:
            qs.append(None)
        return qs

    # -- expressions ---------------------------------------------------------------------------
    def ev_slice(self, sl):
        if isinstance(sl, ast.Slice):
            for x in (sl.lower, sl.upper, sl.step):
                if x is not None:
                    self.ev(x)
        elif isinstance(sl, ast.Tuple):
            for x in sl.elts:
                self.ev_slice(x)
        else:
            self.ev(sl)

    def attr_atoms(self, e, base):
        """atoms of the expression base.attr"""
        W, f = self.W, self.f
        out = set()
        for a in base:
            if a[0] == 'CLS?':
                raise GenError('%s:%s: attribute %s of the class of an object of unknown type'
                               % (self.m.path, getattr(e, 'lineno', '?'), e.attr))
            if a[0] == 'SELF' and e.attr == '__class__' and self.c is not None:
                out.add(('CLS', self.c.qual))
                continue
            if a[0] == 'SELF':
                if self.c is not None and e.attr in self.prop_names(self.c):
                    g = self.an.find_method(self.c, e.attr)
                    out |= set(g.returns) if g else set()
                elif self.c is not None and W.attr_kind(self.c, e.attr) == 'imm':
                    pass
                elif self.c is not None and self.is_method_name(self.c, e.attr):
                    pass            # bound method of self
                else:
                    out.add(('S', e.attr))
            elif a[0] == 'CLS':
                c = self.class_by_qual(a[1])
                b = W.class_binding(c, e.attr) if c else None
                if b and b[1] in ('flat', 'nested'):
                    out.add(('K', 'C:%s.%s' % (b[0].qual, e.attr), 0))
                elif b is None and c is not None and not self.is_method_name(c, e.attr):
                    # attribute created at run time on the class object (cls.x = ...)
                    out.add(('K', 'C:%s.%s' % (c.qual, e.attr), 0))
            elif a[0] == 'MOD':
                full = a[1] + '.' + e.attr
                if full in W.mods:
                    out.add(('MOD', full))
                else:
                    tm = W.mods.get(a[1])
                    if tm is not None:
                        if e.attr in tm.classes:
                            out.add(('CLS', tm.classes[e.attr].qual))
                        elif tm.gkind.get(e.attr) in ('flat', 'nested'):
                            out.add(('K', 'G:%s.%s' % (a[1], e.attr), 0))
                        elif e.attr in tm.imports:
                            out |= self.import_atoms(tm, e.attr)
            elif a[0] == 'EXT':
                out.add(('EXT', a[1] + '.' + e.attr))
            else:
                out.add(a)         # still reachable from where the base came from
        if any(a[0] in ('S', 'X', 'K', 'P') for a in base) or not base:
            if not any(a[0] in ('SELF', 'CLS', 'MOD', 'EXT') for a in base):
                # attribute of some other object
                tags = self.texpr(e.value)
                if tags <= {'imm', 'flat', 'container', 'ext'}:
                    return out          # not an instance of a scanned class
                for q in self.other_classes(e.value):
                    k = self.class_by_qual(q) if q else None
                    if k is not None and e.attr in self.prop_names(k):
                        g = self.an.find_method(k, e.attr)
                        for r in (g.returns if g else ()):
                            out.add(('X', r[1], q) if r[0] == 'S' else r)
                    elif k is not None and W.attr_kind(k, e.attr) == 'imm':
                        pass
                    elif k is None and any(g.prop for g in self.an.by_name.get(e.attr, [])):
                        for g in self.an.by_name.get(e.attr, []):
                            if g.prop:
                                for r in g.returns:
                                    out.add(('X', r[1], g.cls.qual) if r[0] == 'S' else r)
                    else:
                        out.add(('X', e.attr, q))
        return out

    def prop_names(self, c):
        s = set()
        for k in c.mro:
            s |= k.props
        return s

    def is_method_name(self, c, name):
        for k in self.W.family[c]:
            if name in k.methods and name not in k.props:
                return True
        return False

    def class_by_qual(self, q):
        mod, _, name = q.rpartition('.')
        m = self.W.mods.get(mod)
        return m.classes.get(name) if m else None

    def import_atoms(self, m, name):
        imp = m.imports.get(name)
        if imp is None:
            return set()
        if imp[0] == 'mod':
            return {('MOD', imp[1])}
        if imp[0] == 'ext':
            return {('EXT', imp[1])}
        tm = self.W.mods.get(imp[1])
        if tm is None:
            return {('EXT', imp[1] + '.' + imp[2])}
        if imp[2] in tm.classes:
            return {('CLS', tm.classes[imp[2]].qual)}
        if imp[2] in tm.funcs:
            return {('FUN', tm.funcs[imp[2]].qual)}
        if tm.gkind.get(imp[2]) in ('flat', 'nested'):
            return {('K', 'G:%s.%s' % (tm.name, imp[2]), 0)}
        if imp[2] in tm.imports:
            return self.import_atoms(tm, imp[2])
        return set()

    def name_atoms(self, name):
        m = self.m
        if name == self.selfname:
            if self.is_cls:
                return {('CLS', self.c.qual)}
            return {('SELF',)}
        if name in self.env or name in self.locals:
            out = set(self.env.get(name, set()))
            if name in self.globals_decl and m.gkind.get(name) in ('flat', 'nested'):
                out.add(('K', 'G:%s.%s' % (m.name, name), 0))
            return out
        if name in m.classes:
            return {('CLS', m.classes[name].qual)}
        if name in m.funcs:
            return {('FUN', m.funcs[name].qual)}
        if name in m.gkind:
            if m.gkind[name] in ('flat', 'nested'):
                return {('K', 'G:%s.%s' % (m.name, name), 0)}
            return set()
        if name in m.imports:
            return self.import_atoms(m, name)
        return {('EXT', name)}       # builtin

    def ev(self, e):
        f, an = self.f, self.an
        if e is None:
            return set()
        if isinstance(e, (ast.Constant,)):
            return set()
        if isinstance(e, ast.JoinedStr):
            for v in e.values:
                if isinstance(v, ast.FormattedValue):
                    self.ev(v.value)
            return set()
        if isinstance(e, ast.FormattedValue):
            self.ev(e.value)
            return set()
        if isinstance(e, ast.Name):
            return self.name_atoms(e.id)
        if isinstance(e, ast.Attribute):
            base = self.ev(e.value)
            return self.attr_atoms(e, base)
        if isinstance(e, ast.Subscript):
            base = self.ev(e.value)
            self.ev_slice(e.slice)
            return an.elem(self.values_only(base), f)
        if isinstance(e, (ast.List, ast.Tuple, ast.Set)):
            out = set()
            for x in e.elts:
                out |= self.values_only(self.ev(x))
            return out
        if isinstance(e, ast.Dict):
            out = set()
            for x in list(e.keys) + list(e.values):
                if x is not None:
                    out |= self.values_only(self.ev(x))
            return out
        if isinstance(e, (ast.ListComp, ast.SetComp, ast.GeneratorExp, ast.DictComp)):
            for g in e.generators:
                it = self.ev(g.iter)
                self.note_types(g.target, None, elem_of=g.iter)
                self.assign(g.target, an.elem(self.values_only(it), f), None)
                for c in g.ifs:
                    self.ev(c)
            if isinstance(e, ast.DictComp):
                return self.values_only(self.ev(e.key)) | self.values_only(self.ev(e.value))
            return self.values_only(self.ev(e.elt))
        if isinstance(e, ast.BinOp):
            return an.elem(self.values_only(self.ev(e.left) | self.ev(e.right)), f)
        if isinstance(e, ast.UnaryOp):
            self.ev(e.operand)
            return set()
        if isinstance(e, ast.BoolOp):
            out = set()
            for x in e.values:
                out |= self.ev(x)
            return out
        if isinstance(e, ast.Compare):
            self.ev(e.left)
            for x in e.comparators:
                self.ev(x)
            return set()
        if isinstance(e, ast.IfExp):
            self.ev(e.test)
            return self.ev(e.body) | self.ev(e.orelse)
        if isinstance(e, ast.Lambda):
            for a in e.args.args:
                self.env.setdefault(a.arg, set())
            return self.values_only(self.ev(e.body))
        if isinstance(e, ast.Starred):
            return self.ev(e.value)
        if isinstance(e, ast.NamedExpr):
            v = self.ev(e.value)
            self.assign(e.target, v, e.value)
            return v
        if isinstance(e, ast.Call):
            return self.call(e)
        if isinstance(e, ast.Slice):
            self.ev_slice(e)
            return set()
        if isinstance(e, (ast.Yield, ast.YieldFrom, ast.Await)):
            return self.ev(e.value) if e.value is not None else set()
        self.err(e, 'expression kind not handled')

    @staticmethod
    def values_only(atoms):
        return {a for a in atoms if a[0] in ('S', 'X', 'K', 'P', 'SELF')}

    # -- calls ----------------------------------------------------------------------------------
    def call(self, e):
        f, an, W = self.f, self.an, self.W
        args = [self.ev(a) for a in e.args]
        kwargs = {k.arg: self.ev(k.value) for k in e.keywords}
        allargs = set()
        for a in args:
            allargs |= self.values_only(a)
        for a in kwargs.values():
            allargs |= self.values_only(a)
        allargs -= {('SELF',)}
        d = dotted(e.func)
        fn = e.func

        # super().__init__(...) / super().m(...)
        if isinstance(fn, ast.Attribute) and isinstance(fn.value, ast.Call) and dotted(fn.value.func) == 'super':
            if self.c is None:
                self.err(e, 'super() outside a class')
            for k in self.c.mro[1:]:
                if fn.attr in k.methods:
                    return self.apply(k.methods[fn.attr], {('SELF',)}, args, kwargs, e)
            return set()        # external base class (object, ABC, BaseRequestHandler ...)

        if isinstance(fn, ast.Attribute):
            recv = self.ev(fn.value)
            m = fn.attr
            # Base.__init__(self, ...) / Cls.method(self, ...)
            cls_atoms = [a for a in recv if a[0] == 'CLS']
            if cls_atoms:
                out = set()
                for a in cls_atoms:
                    c = self.class_by_qual(a[1])
                    g = an.find_method(c, m) if c else None
                    if g is None:
                        if allargs:
                            self.mut(allargs)
                        continue
                    if g.static or g.classm:
                        out |= self.apply(g, {('CLS', c.qual)}, args, kwargs, e)
                    elif args and ('SELF',) in args[0]:
                        out |= self.apply(g, {('SELF',)}, args[1:], kwargs, e)
                    else:
                        out |= self.apply(g, self.values_only(args[0]) if args else set(), args[1:], kwargs, e)
                return out
            mod_atoms = [a for a in recv if a[0] == 'MOD']
            if mod_atoms:
                out = set()
                for a in mod_atoms:
                    tm = W.mods.get(a[1])
                    if tm and m in tm.funcs:
                        out |= self.apply(tm.funcs[m], None, args, kwargs, e)
                    elif tm and m in tm.classes:
                        out |= self.construct(tm.classes[m], args, kwargs, e)
                    elif allargs:
                        self.mut(allargs)
                return out
            ext = [a for a in recv if a[0] == 'EXT']
            vals = self.values_only(recv)
            if ext and not vals:
                return self.external(ext[0][1] + '.' + m, e, args, kwargs, allargs)
            if ('SELF',) in recv and self.c is not None:
                g = an.find_method(self.c, m)
                targets = [g] if g else [x for x in an.by_name.get(m, []) if x.cls in W.family[self.c]]
                if targets:
                    out = set()
                    for g in targets:
                        out |= self.apply(g, {('SELF',)}, args, kwargs, e)
                    return out
                if self.W.has_attr(self.c, m):
                    # a callable stored in an attribute
                    at = self.attr_atoms(fn, recv)
                    self.mut(at | allargs)
                    return set()
                # method of an external base class (e.g. BaseHTTPRequestHandler.send_response)
                if self.c.ext_bases or any(k.ext_bases for k in self.c.mro):
                    if allargs:
                        self.mut(allargs)
                    return set()
                self.err(e, 'call of unknown method self.%s' % m)
            vals -= {('SELF',)}
            rtags = self.texpr(fn.value)
            builtin_only = rtags <= {'imm', 'flat', 'container', 'ext', 'class'}
            targets = [] if builtin_only else an.by_name_inst(rtags, m)
            if m in ('append', 'add', 'insert', 'put', 'extend', 'appendleft', 'put_nowait') and e.args:
                b = fn.value
                if isinstance(b, ast.Attribute) and isinstance(b.value, ast.Name) and b.value.id == self.selfname \
                        and self.c is not None:
                    W.add_types(W.aetypes, (self.c, b.attr), self.texpr(e.args[-1]))
                elif isinstance(b, ast.Name):
                    self.vet.setdefault(b.id, set()).update(self.texpr(e.args[-1]))
            if targets:
                out = set()
                for g in targets:
                    if g.static:
                        out |= self.apply(g, None, args, kwargs, e)
                    else:
                        out |= self.apply(g, vals, args, kwargs, e, other=True)
                if not ('unknown' in rtags):
                    return out
                # the receiver may also be a builtin container / external object
                if m in MUTATORS:
                    self.mut(vals)
                    self.store_into(vals, allargs)
                if m in READERS_ELEM or m in ('pop', 'setdefault', 'popitem', 'popleft'):
                    out |= an.elem(vals, f)
                return out
            if m in MUTATORS:
                self.mut(vals)
                self.store_into(vals, allargs)
                if m in ('pop', 'setdefault', 'popitem', 'popleft', 'get_nowait', 'recv', 'accept'):
                    return an.elem(vals, f)
                return set()
            if m in READERS_IMM:
                return set()
            if m in READERS_ELEM:
                return an.elem(vals, f)
            # unknown method of a builtin / external / unknown object: conservative
            self.mut(vals | allargs)
            self.store_into(vals, allargs)
            return an.elem(vals, f) | allargs

        # plain name / arbitrary expression in function position
        fa = self.ev(fn)
        out = set()
        handled = False
        for a in fa:
            if a[0] == 'FUN':
                g = self.fn_by_qual(a[1])
                out |= self.apply(g, None, args, kwargs, e)
                handled = True
            elif a[0] == 'CLS':
                out |= self.construct(self.class_by_qual(a[1]), args, kwargs, e)
                handled = True
            elif a[0] == 'EXT':
                out |= self.external(a[1], e, args, kwargs, allargs)
                handled = True
        vals = self.values_only(fa) - {('SELF',)}
        # a leaf of a literal whose leaves are immutable (a type, a function, a constant) is not a
        # bound method of a mutable object
        vals = {a for a in vals
                if a != ('S', '*')
                and not (a[0] == 'K' and (W.sdepth.get(a[1]) is not None or W.skind.get(a[1]) == 'flat'))
                and not (a[0] == 'S' and self.c is not None and W.finite_depth_attr(self.c, a[1]))}
        if vals or not handled:
            # calling a value (bound method obtained by getattr, callback, thread target ...):
            # the objects it belongs to may be mutated, and so may the arguments
            self.mut(vals | allargs)
            self.store_into(vals, allargs)
            out |= allargs
        return out

    def fn_by_qual(self, q):
        for g in self.W.functions():
            if g.qual == q:
                return g
        return None

    def external(self, name, e, args, kwargs, allargs):
        an, f = self.an, self.f
        base = name.split('.')[-1]
        if name == 'getattr' or base == 'getattr':
            # dynamic attribute lookup.  Constant name: same as the attribute expression.  Computed
            # name on self: method dispatch in this code base; the result is "some attribute of self"
            # ('S', '*'): calling it is calling a method of self, anything else done to it counts for
            # every attribute.  On another object: the result belongs to that object.
            if len(e.args) >= 2 and isinstance(e.args[1], ast.Constant) and isinstance(e.args[1].value, str):
                fake = ast.Attribute(value=e.args[0], attr=e.args[1].value, ctx=ast.Load())
                ast.copy_location(fake, e)
                return self.attr_atoms(fake, args[0])
            if args and ('SELF',) in args[0]:
                names = self.resolve_names(e.args[1]) if len(e.args) >= 2 else None
                if names is None:
                    return {('S', '*')}
                out = set()
                for n in sorted(names):
                    fake = ast.Attribute(value=e.args[0], attr=n, ctx=ast.Load())
                    ast.copy_location(fake, e)
                    out |= self.attr_atoms(fake, {('SELF',)})
                return out
            return self.values_only(args[0]) if args else set()
        if name == 'type' and len(args) == 1:
            # type(self) / type(x): the class object
            if ('SELF',) in args[0] and self.c is not None:
                return {('CLS', self.c.qual)}
            qs = self.other_classes(e.args[0])
            if None in qs:
                return {('CLS?',)}
            return {('CLS', q) for q in qs}
        if name in EXTERNAL_MUTATING or base in ('setattr', 'delattr'):
            if base in ('setattr', 'delattr') and args and ('SELF',) in args[0]:
                raise GenError('%s:%s: dynamic setattr/delattr on self' % (self.m.path, e.lineno))
            self.mut(allargs)
            return set()
        if name in THREADLIKE or base in ('Thread', 'Timer', 'Process'):
            # Thread(target=f, args=(...)) / Timer(t, f, args=(...)): f will be called with args
            target = kwargs.get('target') or kwargs.get('function')
            tnode = None
            for k in e.keywords:
                if k.arg in ('target', 'function'):
                    tnode = k.value
            pos = list(e.args)
            if tnode is None and base == 'Timer' and len(pos) >= 2:
                tnode = pos[1]
                pos = pos[:1] + pos[2:]
            argnode = None
            for k in e.keywords:
                if k.arg == 'args':
                    argnode = k.value
            if argnode is None and base == 'Timer' and len(pos) >= 2:
                argnode = pos[1]
            if tnode is not None:
                call_args = list(argnode.elts) if isinstance(argnode, (ast.Tuple, ast.List)) else \
                    ([ast.Starred(value=argnode, ctx=ast.Load())] if argnode is not None else [])
                fake = ast.Call(func=tnode, args=call_args, keywords=[])
                ast.copy_location(fake, e)
                ast.fix_missing_locations(fake)
                self.call(fake)
            return allargs      # the thread object keeps its arguments alive
        if name in PURE_BUILTINS or base in PURE_BUILTINS:
            if base in ELEM_RETURNING or name in ELEM_RETURNING:
                return an.elem(allargs, f)
            return set()
        if name in PURE_EXTERNAL or base in PURE_EXTERNAL:
            return set()
        if not allargs:
            return set()
        # unknown external callable given something we track: conservative
        self.mut(allargs)
        return allargs

    def table_values(self, t):
        """string values of the dict literal(s) that self.<t> / Cls.<t> can denote, or None"""
        if self.c is None:
            return None
        lits = []
        for k in self.W.family[self.c]:
            if t in k.cvalue:
                lits.append(k.cvalue[t])
            for v in self.W.stores[k].get(t, []):
                lits.append(v)
        if not lits:
            return None
        out = set()
        for v in lits:
            if not isinstance(v, ast.Dict):
                return None
            for x in v.values:
                if isinstance(x, ast.Constant) and isinstance(x.value, str):
                    out.add(x.value)
                else:
                    return None
        return out

    def resolve_names(self, x, depth=0):
        """the strings expression x can evaluate to when they come from a constant or from a dispatch
        table (dict literal with constant string values) of the class; None when unknown"""
        if depth > 4:
            return None
        if isinstance(x, ast.Constant):
            if isinstance(x.value, str):
                return {x.value}
            return set() if x.value is None else None
        if isinstance(x, ast.Name):
            vals = []
            for n in ast.walk(self.f.node):
                if isinstance(n, ast.Assign) and any(isinstance(t, ast.Name) and t.id == x.id for t in n.targets):
                    vals.append(n.value)
                elif isinstance(n, (ast.For, ast.comprehension, ast.AugAssign, ast.NamedExpr)) and \
                        any(isinstance(t, ast.Name) and t.id == x.id for t in ast.walk(n.target)):
                    return None
                elif isinstance(n, ast.Assign) and any(
                        isinstance(t, (ast.Tuple, ast.List)) and any(isinstance(y, ast.Name) and y.id == x.id
                                                                     for y in ast.walk(t)) for t in n.targets):
                    return None
            if not vals or x.id in self.f.params:
                return None
            out = set()
            for v in vals:
                r = self.resolve_names(v, depth + 1)
                if r is None:
                    return None
                out |= r
            return out
        tbl = None
        if isinstance(x, ast.Subscript) and not isinstance(x.slice, ast.Slice):
            tbl = x.value
        elif isinstance(x, ast.Call) and isinstance(x.func, ast.Attribute) and x.func.attr == 'get' \
                and 1 <= len(x.args) <= 2:
            tbl = x.func.value
            if len(x.args) == 2:
                d = self.resolve_names(x.args[1], depth + 1)
                if d is None:
                    return None
        if tbl is not None and isinstance(tbl, ast.Attribute) and isinstance(tbl.value, ast.Name) \
                and tbl.value.id == self.selfname:
            return self.table_values(tbl.attr)
        if isinstance(x, ast.IfExp):
            a, b = self.resolve_names(x.body, depth + 1), self.resolve_names(x.orelse, depth + 1)
            return None if a is None or b is None else a | b
        return None

    def construct(self, c, args, kwargs, e):
        """Cls(args): run __new__/__init__ of a scanned class on a new instance"""
        if c is None:
            return set()
        out = set()
        g = self.an.find_method(c, '__init__')
        if g is not None:
            self.apply(g, set(), args, kwargs, e, other=True, fresh=True)
        n = self.an.find_method(c, '__new__')
        if n is not None:
            out |= self.apply(n, {('CLS', c.qual)}, args, kwargs, e)
        # the new object may keep references to its arguments
        allargs = set()
        for a in list(args) + list(kwargs.values()):
            allargs |= self.values_only(a)
        return out | (allargs - {('SELF',)})

    def apply(self, g, recv, args, kwargs, e, other=False, fresh=False):
        """effects of calling scanned function g.  recv: atoms of the receiver (None: plain function;
        {SELF}: same instance; other=True: a different instance reachable from recv)"""
        f, an = self.f, self.an
        if g is None:
            return set()
        offset = 1 if (g.cls is not None and not g.static) else 0
        pmap = {}
        for i, a in enumerate(args):
            idx = i + offset
            if idx < len(g.params):
                pmap[idx] = self.values_only(a)
                pmap[g.params[idx]] = pmap[idx]
            else:
                pmap.setdefault('*', set()).update(self.values_only(a))
        for k, a in kwargs.items():
            if k is None:
                pmap.setdefault('**', set()).update(self.values_only(a))
            elif k in g.params:
                pmap[g.params.index(k)] = self.values_only(a)
            elif k in g.kwonly:
                pmap['kw:' + k] = self.values_only(a)
            else:
                pmap.setdefault('**', set()).update(self.values_only(a))
        star = set()
        for a, node in zip(args, e.args):
            if isinstance(node, ast.Starred):
                star |= self.values_only(a)
        same = recv is not None and ('SELF',) in recv and not other
        robjs = set() if recv is None else {a for a in recv if a[0] in ('S', 'X', 'K', 'P')}

        gq = g.cls.qual if g.cls is not None else None

        def sub(atom, with_recv=True):
            if atom[0] == 'P':
                got = (pmap.get(atom[1], set()) | star) - {('SELF',)}
                for _ in range(atom[2]):
                    got = an.elem(got, f)
                return got
            if atom[0] == 'S':
                if same:
                    return {atom}
                return {('X', atom[1], gq)} | (robjs if with_recv else set())
            return {atom}

        for a in list(g.mut):
            self.mut(sub(a))
        for tgt, a in list(g.edges):
            kind, attr = tgt[0], tgt[1]
            src = {('FRESH',)} if a == ('FRESH',) else sub(a, with_recv=False)
            if kind == 'S' and same:
                self.an.add(f.edges, [(('S', attr), x) for x in src])
            elif kind == 'S':
                self.an.add(f.edges, [(('X', attr, gq), x) for x in src])
                if not fresh:
                    self.mut(robjs)
                self.store_into(robjs, src - {('FRESH',)})
            else:
                self.an.add(f.edges, [(tgt, x) for x in src])
        if same:
            self.an.add(f.dels, list(g.dels))
            self.an.add(f.selfstores, list(g.selfstores))
        elif (g.selfstores or g.dels or g.mut) and not fresh:
            self.mut(robjs)       # a method that changes its instance, called on an object we track
        self.an.add(f.srebind, list(g.srebind))
        out = set()
        for a in list(g.returns):
            out |= sub(a)
        return out


# ---------------------------------------------------------------------------
# init sequence: which class-level attributes are definitely rebound before use

class InitSeq:
    def __init__(self, W, an, c):
        self.W, self.an, self.c = W, an, c
        self.cattrs = set()
        for k in c.mro:
            for a, kd in k.ckind.items():
                if kd != 'imm':
                    self.cattrs.add(a)
        self.bound = set()
        self.bad = set()
        self.stack = []
        g = an.find_method(c, '__init__')
        if g is not None:
            self.seq(g)
        self.shadowed = sorted(a for a in self.bound if a not in self.bad)

    def self_loads(self, node, selfname, skip=()):
        out = set()
        for n in ast.walk(node):
            if n in skip:
                continue
            if isinstance(n, ast.Attribute) and isinstance(n.value, ast.Name) and n.value.id == selfname \
                    and not isinstance(n.ctx, ast.Store):
                out.add(n.attr)
        return out

    def uses_transitive(self, g, seen):
        """attributes loaded through self in g and in the self-methods it calls"""
        if g in seen:
            return set()
        seen.add(g)
        selfname = g.params[0] if (g.is_method and g.params) else None
        if selfname is None:
            return set()
        out = self.self_loads(g.node, selfname)
        for n in ast.walk(g.node):
            if isinstance(n, ast.Call) and isinstance(n.func, ast.Attribute) and \
                    isinstance(n.func.value, ast.Name) and n.func.value.id == selfname:
                h = self.an.find_method(self.c, n.func.attr)
                if h is not None:
                    out |= self.uses_transitive(h, seen)
            # conditional stores through self make the final value uncertain
            if isinstance(n, ast.Attribute) and isinstance(n.value, ast.Name) and n.value.id == selfname \
                    and isinstance(n.ctx, ast.Store):
                out.add(n.attr)
        return out

    def use(self, attrs):
        for a in attrs:
            if a in self.cattrs and a not in self.bound:
                self.bad.add(a)

    def unsure(self, attrs):
        """attributes stored in a way we cannot call a definite local rebinding"""
        for a in attrs:
            if a in self.cattrs:
                self.bad.add(a)

    def seq(self, g):
        if g in self.stack:
            return
        self.stack.append(g)
        selfname = g.params[0] if (g.is_method and g.params) else None
        for s in g.node.body:
            self.top(s, g, selfname)
        self.stack.pop()

    def top(self, s, g, selfname):
        W = self.W
        if isinstance(s, ast.Expr) and isinstance(s.value, ast.Constant):
            return
        if isinstance(s, ast.Assign) and len(s.targets) == 1 and isinstance(s.targets[0], ast.Attribute) \
                and isinstance(s.targets[0].value, ast.Name) and s.targets[0].value.id == selfname:
            a = s.targets[0].attr
            v = s.value
            deep = self.deep_copy(v, a, g, selfname)
            if deep is not None:
                # self.a = <copy of the class-level a, as deep as the literal>: a fresh object
                loads = self.self_loads(v, selfname, skip=(deep,))
            else:
                loads = self.self_loads(v, selfname)
            self.use(loads)
            self.calls_in(v, g, selfname)
            local = deep is not None or W.imm_expr(v, self.c, g) or W.flat_expr(v, self.c, g) \
                or self.fresh_expr(v, g, selfname)
            if local:
                if a not in self.bad:
                    self.bound.add(a)
            else:
                self.unsure([a])
            return
        if isinstance(s, ast.Expr) and isinstance(s.value, ast.Call):
            c = s.value
            fn = c.func
            # self.m(...)
            if isinstance(fn, ast.Attribute) and isinstance(fn.value, ast.Name) and fn.value.id == selfname:
                for a in c.args + [k.value for k in c.keywords]:
                    self.use(self.self_loads(a, selfname))
                h = self.an.find_method(self.c, fn.attr)
                if h is not None:
                    self.seq(h)
                return
            # super().__init__(...) / Base.__init__(self, ...)
            if isinstance(fn, ast.Attribute) and isinstance(fn.value, ast.Call) and dotted(fn.value.func) == 'super':
                for a in c.args + [k.value for k in c.keywords]:
                    self.use(self.self_loads(a, selfname))
                cur = g.cls
                mro = self.c.mro
                rest = mro[mro.index(cur) + 1:] if cur in mro else []
                for k in rest:
                    if fn.attr in k.methods:
                        self.seq(k.methods[fn.attr])
                        break
                return
            if isinstance(fn, ast.Attribute) and fn.attr == '__init__' and c.args and \
                    isinstance(c.args[0], ast.Name) and c.args[0].id == selfname:
                k = W.lookup_class(g.mod, dotted(fn.value))
                if k is not None and '__init__' in k.methods:
                    self.seq(k.methods['__init__'])
                    return
        # anything else: every attribute it touches is a use; stores are not definite
        if selfname is not None:
            self.use(self.self_loads(s, selfname))
            stored = set()
            for n in ast.walk(s):
                if isinstance(n, ast.Attribute) and isinstance(n.value, ast.Name) and n.value.id == selfname \
                        and isinstance(n.ctx, ast.Store):
                    stored.add(n.attr)
            self.unsure(stored)
            self.calls_in(s, g, selfname)

    def deep_copy(self, v, a, g, selfname):
        """if v is a copy of the class-level object attribute a denotes (read as self.a or Cls.a) that
        is at least as deep as the class-level literal, return the source node, else None"""
        b = self.W.class_binding(self.c, a)
        if b is None or b[1] == 'method' or a in self.bound:
            return None
        key = 'C:%s.%s' % (b[0].qual, a)
        depth = 1 if b[1] in ('imm', 'flat') else self.W.sdepth.get(key)
        if depth is None:
            return None
        r = self.copy_depth(v, {}, a, g, selfname)
        if r is None:
            return None
        d, src = r
        return src if (src is not None and d >= depth) else None

    def copy_depth(self, e, env, a, g, selfname):
        """(number of container levels copied, source node) for a copy expression of self.a / Cls.a;
        env: comprehension variables denoting an element of the source -> levels already below it"""
        INF = 99
        if isinstance(e, ast.Attribute) and e.attr == a and isinstance(e.value, ast.Name):
            if e.value.id == selfname:
                return 0, e
            k = self.W.lookup_class(g.mod, e.value.id)
            if k is not None and k in self.c.mro:
                return 0, e
            return None
        if isinstance(e, ast.Name) and e.id in env:
            return 0, env[e.id]
        if isinstance(e, ast.Call):
            d = dotted(e.func)
            if d in ('list', 'dict', 'set', 'sorted') and len(e.args) == 1 and not e.keywords:
                r = self.copy_depth(e.args[0], env, a, g, selfname)
                return None if r is None else (r[0] + 1, r[1])
            if d in ('deepcopy', 'copy.deepcopy') and len(e.args) == 1:
                r = self.copy_depth(e.args[0], env, a, g, selfname)
                return None if r is None else (INF, r[1])
            if d in ('copy', 'copy.copy') and len(e.args) == 1:
                r = self.copy_depth(e.args[0], env, a, g, selfname)
                return None if r is None else (r[0] + 1, r[1])
            if isinstance(e.func, ast.Attribute) and e.func.attr == 'copy' and not e.args:
                r = self.copy_depth(e.func.value, env, a, g, selfname)
                return None if r is None else (r[0] + 1, r[1])
            return None
        if isinstance(e, ast.Subscript) and isinstance(e.slice, ast.Slice) and e.slice.lower is None \
                and e.slice.upper is None and e.slice.step is None:
            r = self.copy_depth(e.value, env, a, g, selfname)
            return None if r is None else (r[0] + 1, r[1])
        if isinstance(e, (ast.ListComp, ast.SetComp, ast.DictComp)) and len(e.generators) == 1 \
                and not e.generators[0].ifs:
            gen = e.generators[0]
            it = gen.iter
            mode = 'iter'
            if isinstance(it, ast.Call) and isinstance(it.func, ast.Attribute) and not it.args \
                    and it.func.attr in ('items', 'values'):
                mode = it.func.attr
                it = it.func.value
            r = self.copy_depth(it, env, a, g, selfname)
            if r is None or r[0] != 0:
                return None
            src = r[1]
            env2 = dict(env)
            if mode == 'items':
                if not (isinstance(gen.target, ast.Tuple) and len(gen.target.elts) == 2
                        and all(isinstance(x, ast.Name) for x in gen.target.elts)):
                    return None
                keyvar, valvar = gen.target.elts[0].id, gen.target.elts[1].id
                env2[valvar] = src
            else:
                if not isinstance(gen.target, ast.Name):
                    return None
                keyvar, valvar = None, gen.target.id
                env2[valvar] = src
            if isinstance(e, ast.DictComp):
                if not (isinstance(e.key, ast.Name) and e.key.id == keyvar or isinstance(e.key, ast.Constant)):
                    return None
                elt = e.value
            else:
                elt = e.elt
            if isinstance(elt, ast.Constant):
                return INF, src
            r2 = self.copy_depth(elt, env2, a, g, selfname)
            if r2 is None:
                return None
            return 1 + r2[0], src
        return None

    def calls_in(self, node, g, selfname):
        for n in ast.walk(node):
            if isinstance(n, ast.Call) and isinstance(n.func, ast.Attribute) and \
                    isinstance(n.func.value, ast.Name) and n.func.value.id == selfname:
                h = self.an.find_method(self.c, n.func.attr)
                if h is not None:
                    u = self.uses_transitive(h, set())
                    self.use(u)
                    self.unsure(u & {a for a in u})   # may also store them conditionally

    def fresh_expr(self, v, g, selfname):
        """a new object that cannot alias anything shared: a literal/comprehension/constructor call
        none of whose parts mentions self-attributes, shared names or parameters with mutable defaults"""
        if not isinstance(v, (ast.List, ast.Dict, ast.Set, ast.ListComp, ast.DictComp, ast.SetComp, ast.Call,
                              ast.BinOp, ast.Tuple)):
            return False
        for n in ast.walk(v):
            if isinstance(n, ast.Name):
                if n.id == selfname:
                    # self.x inside: only immutable class constants are allowed
                    continue
                if n.id in g.defaults:
                    return False
                if n.id in g.mod.gkind and g.mod.gkind[n.id] != 'imm' and n.id not in self.W.locals_of(g):
                    return False
                imp = g.mod.imports.get(n.id)
                if imp and imp[0] == 'name':
                    tm = self.W.mods.get(imp[1])
                    if tm and tm.gkind.get(imp[2], 'imm') != 'imm':
                        return False
            if isinstance(n, ast.Attribute) and isinstance(n.value, ast.Name) and n.value.id == selfname:
                if self.W.attr_kind(self.c, n.attr) != 'imm' and not self.is_method(n.attr):
                    return False
        return True

    def is_method(self, name):
        return self.an.find_method(self.c, name) is not None


# ---------------------------------------------------------------------------
def reset_summaries(W):
    for f in W.functions():
        f.mut, f.edges, f.dels, f.srebind, f.returns, f.selfstores = set(), set(), set(), set(), set(), set()


def analyse(repo):
    W = World(repo)
    W.load()
    an = Analyzer(W)
    fns = list(W.functions())
    # the summaries only grow, but the choice of callees depends on the inferred attribute types:
    # iterate to a fixpoint, then redo the whole analysis with the final types until they are stable
    for phase in range(6):
        reset_summaries(W)
        W._ak = {}
        types_before = ({k: set(v) for k, v in W.atypes.items()}, {k: set(v) for k, v in W.aetypes.items()})
        for it in range(60):
            an.changed = False
            W.types_changed = False
            for f in fns:
                an.analyze(f)
            if not an.changed and not W.types_changed:
                break
        else:
            raise GenError('summaries did not reach a fixpoint')
        if types_before == (W.atypes, W.aetypes):
            break
    else:
        raise GenError('attribute types did not stabilise')
    return W, an


def is_factory(c):
    """class whose __new__ returns something else than an instance of itself"""
    n = c.methods.get('__new__')
    if n is None:
        return False
    for r in ast.walk(n.node):
        if isinstance(r, ast.Return) and r.value is not None:
            txt = ast.unparse(r.value)
            if 'super()' in txt or 'object.__new__' in txt:
                return False
    return True


def build_table(W, an):
    """-> (classes: list of dict, whitelist: list of (key, why), skeys: dict)"""
    allc = [c for c in W.classes()]
    factories = set()
    for c in allc:
        if any(is_factory(k) for k in c.mro):
            factories.add(c)
    wl = []
    # keys written only inside the __new__ of factory classes
    factory_keys = set()
    for c in factories:
        for k in c.mro:
            n = k.methods.get('__new__')
            if n is not None:
                for key in n.srebind:
                    factory_keys.add(key)
    for key in sorted(factory_keys):
        wl.append((key, 'written and read inside one __new__ call of a factory class that never '
                        'returns an instance of itself (MultiTypeSystem); no device instance resolves '
                        'attributes through it'))
    out = []
    # effects on other instances are attributed to the family of the class when it is known,
    # else to every class that has the attribute
    wild_mut = set()        # (attr, clsqual or None)
    wild_edges = set()      # (attr, clsqual or None, atom)
    for f in W.functions():
        for a in f.mut:
            if a[0] == 'X':
                wild_mut.add((a[1], a[2]))
        for tgt, a in f.edges:
            if tgt[0] == 'X':
                wild_edges.add((tgt[1], tgt[2], a))
    qual2cls = {c.qual: c for c in allc}

    def applies(c, attr, q):
        if q is None:
            return W.has_attr(c, attr)
        k = qual2cls.get(q)
        return k is not None and k in W.family[c]

    for c in sorted(allc, key=lambda c: c.qual):
        if c in factories:
            continue
        info = dict(name=c.qual, cattrs=[], mutated=set(), alias=set(), alias_other=set(),
                    alias_shared=set(), deleted=set(), shadowed=[], smut=set(), srebind=set())
        seen = set()
        for k in c.mro:
            for a, kd in k.ckind.items():
                if a in seen:
                    continue
                seen.add(a)
                if kd != 'imm':
                    info['cattrs'].append((a, 'C:%s.%s' % (k.qual, a)))
            for a in k.methods:
                seen.add(a.split('.')[0])
        methods = []
        names = set()
        for k in c.mro:
            for n, g in k.methods.items():
                if n not in names:
                    names.add(n)
                    methods.append(g)
        for g in methods:
            for a in list(g.mut):
                if a[0] == 'S':
                    info['mutated'].add(a[1])
                elif a[0] == 'K':
                    info['smut'].add(a[1])
            for tgt, a in list(g.edges):
                kind, attr = tgt[0], tgt[1]
                if kind != 'S':
                    continue
                if a[0] == 'S':
                    info['alias'].add((attr, a[1]))
                elif a[0] == 'X':
                    info['alias_other'].add((attr, a[1]))
                elif a[0] == 'K':
                    info['alias_shared'].add((attr, a[1]))
            info['deleted'] |= set(g.dels)
            info['srebind'] |= set(g.srebind)
        for a, q in wild_mut:
            if applies(c, a, q):
                info['mutated'].add(a)
        for attr, q, a in wild_edges:
            if not applies(c, attr, q):
                continue
            if a[0] in ('S', 'X'):
                info['alias_other'].add((attr, a[1]))
            elif a[0] == 'K':
                info['alias_shared'].add((attr, a[1]))
        cn = {a for a, _ in info['cattrs']}
        info['shadowed'] = [a for a in InitSeq(W, an, c).shadowed if a in cn]
        # ('S', '*'): some attribute of the instance, name computed at run time
        every = set(cn)
        for k in c.mro:
            every |= set(W.stores[k])
        if '*' in info['mutated']:
            info['mutated'].discard('*')
            info['mutated'] |= every
        for fld in ('alias', 'alias_other'):
            exp = set()
            for (a, b) in info[fld]:
                for a2 in (every if a == '*' else [a]):
                    for b2 in (cn if b == '*' else [b]):
                        exp.add((a2, b2))
            info[fld] = exp
        info['alias_shared'] = {(a2, k) for (a, k) in info['alias_shared'] for a2 in (every if a == '*' else [a])}
        info['deleted'] = set().union(*[(every if a == '*' else {a}) for a in info['deleted']]) if info['deleted'] else set()
        for key, _ in wl:
            info['smut'].discard(key)
            info['srebind'].discard(key)
            info['alias_shared'] = {p for p in info['alias_shared'] if p[1] != key}
        out.append(info)
    # effects of module-level functions that nobody's summary absorbed are attributed to a
    # pseudo class per module, so that they cannot be lost
    for m in W.mods.values():
        smut, sreb = set(), set()
        for g in m.funcs.values():
            smut |= {a[1] for a in g.mut if a[0] == 'K'}
            sreb |= set(g.srebind)
        smut -= {k for k, _ in wl}
        sreb -= {k for k, _ in wl}
        if smut or sreb:
            out.append(dict(name=m.name + '.<functions>', cattrs=[], mutated=set(), alias=set(),
                            alias_other=set(), alias_shared=set(), deleted=set(), shadowed=[],
                            smut=smut, srebind=sreb))
    return out, wl


def coq_str(s):
    return '"' + s.replace('"', '""') + '"'


def coq_list(xs, f=coq_str):
    return '[' + '; '.join(f(x) for x in xs) + ']'


def coq_pair(p):
    return '(%s, %s)' % (coq_str(p[0]), coq_str(p[1]))


def emit(table, wl, skeys):
    L = ['(* generated by gen/shr_sharing.py from the simulators/ tree -- do not edit *)',
         'From DS Require Import Base.Prelude Model.ShrHeap.',
         'From Coq Require Import String.',
         'Open Scope string_scope.',
         'Open Scope list_scope.',
         '']
    names = []
    for i, ci in enumerate(table):
        nm = 'cls_%d' % i
        names.append(nm)
        L.append('(* %s *)' % ci['name'])
        L.append('Definition %s : class_info := {|' % nm)
        L.append('  c_name := %s;' % coq_str(ci['name']))
        L.append('  c_cattrs := %s;' % coq_list(sorted(ci['cattrs']), coq_pair))
        L.append('  c_mutated := %s;' % coq_list(sorted(ci['mutated'])))
        L.append('  c_alias := %s;' % coq_list(sorted(ci['alias']), coq_pair))
        L.append('  c_alias_other := %s;' % coq_list(sorted(ci['alias_other']), coq_pair))
        L.append('  c_alias_shared := %s;' % coq_list(sorted(ci['alias_shared']), coq_pair))
        L.append('  c_deleted := %s;' % coq_list(sorted(ci['deleted'])))
        L.append('  c_shadowed := %s;' % coq_list(sorted(ci['shadowed'])))
        L.append('  c_smut := %s;' % coq_list(sorted(ci['smut'])))
        L.append('  c_srebind := %s' % coq_list(sorted(ci['srebind'])))
        L.append('|}.')
        L.append('')
    L.append('Definition gen_table : table := [%s].' % '; '.join(names))
    L.append('')
    L.append('(* shared objects found (key, kind) *)')
    L.append('Definition shared_keys : list (string * string) := %s.'
             % coq_list(sorted(skeys.items()), coq_pair))
    L.append('')
    L.append('(* shared names left out of the table, with the justification *)')
    L.append('Definition whitelisted : list (string * string) := %s.' % coq_list(wl, coq_pair))
    return '\n'.join(L) + '\n'


def generate(repo):
    """-> (coq text, info dict for the dynamic check)"""
    W, an = analyse(repo)
    table, wl = build_table(W, an)
    text = emit(table, wl, W.skind)
    info = dict(
        classes=[dict(name=c['name'], cattrs=sorted(c['cattrs']), mutated=sorted(c['mutated']),
                      shadowed=sorted(c['shadowed']), smut=sorted(c['smut']), srebind=sorted(c['srebind']),
                      alias_shared=sorted(c['alias_shared']), alias=sorted(c['alias']),
                      alias_other=sorted(c['alias_other']), deleted=sorted(c['deleted']))
                 for c in table],
        shared={k: dict(kind=v, origin=W.sorigin[k]) for k, v in W.skind.items()},
        whitelist=wl,
    )
    return text, info


if __name__ == '__main__':
    import sys
    import json
    text, info = generate(sys.argv[1] if len(sys.argv) > 1 else '/repo')
    if len(sys.argv) > 2:
        open(sys.argv[2], 'w').write(text)
    for c in info['classes']:
        interesting = {k: v for k, v in c.items() if v and k != 'name'}
        print(c['name'], json.dumps(interesting)[:1500])
    print('whitelist', info['whitelist'])
