"""C07 translator (fail closed): simulators/**.py  ->  coq/Gen/LdgLedger.v

Per System class ("unit") the table of
  * creation sites of background activities: Thread(...), Timer(...), HTTPServer(...), socket.socket(),
    with the attribute the object is stored in, the daemon flag (kwarg or `.daemon = True`), whether
    `.start()` is called, and what is done to the previous occupant of the attribute before the store;
  * `attr = None` stores into such attributes (clears);
  * the calls `system_stop` makes (through helpers, loops over collections of helper objects, and the
    `super().system_stop()` chain): cancel / join / shutdown / close per attribute, the stop flag, and
    the literal it finally returns.
Any shape not recognised raises GenError (a broken tie).  Python `ast` only; nothing is imported
from the repo.
"""
import ast
import os

from vlib.core import GenError, write_if_changed, REPO, COQ

SKIP_FILES = {'server.py', 'utils.py', 'common.py'}
STOP_METHODS = {'cancel': 'ACancel', 'join': 'AJoin', 'shutdown': 'AShutdown', 'close': 'AClose'}
KILLERS = ('cancel', 'close', 'shutdown')
# modules whose presence means some other kind of background activity: not modelled -> fail closed
DENY_MODULES = {'subprocess', 'asyncio', 'concurrent', '_thread', 'sched', 'signal', 'selectors',
                'multiprocessing.pool', 'multiprocessing.dummy', 'trio', 'gevent', 'twisted'}
DENY_CALLS = {'Process', 'Popen', 'Pool', 'ThreadPoolExecutor', 'ProcessPoolExecutor',
              'start_new_thread', 'create_connection', 'create_server', 'TCPServer', 'UDPServer',
              'ThreadingTCPServer', 'ThreadingUDPServer', 'ThreadingHTTPServer', 'fork', 'forkpty',
              'system', 'popen', 'spawnl', 'spawnv', 'socketpair', 'fromfd', 'Tcp', 'Udp'}
THREADING_OK = {'Thread', 'Timer', 'Lock', 'RLock', 'Event', 'current_thread', 'enumerate', 'active_count'}
MULTIPROC_OK = {'Value', 'Array', 'Lock'}
BASE_SYSTEMS = {'BaseSystem', 'ListeningSystem', 'SendingSystem'}
ACK = '$server_shutdown%%%%%'


def U(node):
    return ast.unparse(node)


class Mod:
    def __init__(self, path, rel):
        self.path = path
        self.rel = rel                      # e.g. 'mscu/servo.py'
        self.tree = ast.parse(open(path, encoding='utf-8').read(), filename=path)
        self.imports = {}                   # local name -> (module, original name)
        self.classes = {}
        self.functions = {}
        for st in self.tree.body:
            if isinstance(st, ast.ClassDef):
                self.classes[st.name] = st
            elif isinstance(st, (ast.FunctionDef, ast.AsyncFunctionDef)):
                self.functions[st.name] = st
        for st in ast.walk(self.tree):
            if isinstance(st, ast.Import):
                for a in st.names:
                    self._check_module(a.name)
                    self.imports[a.asname or a.name.split('.')[0]] = (a.name, None)
            elif isinstance(st, ast.ImportFrom):
                self._check_module(st.module or '')
                for a in st.names:
                    self.imports[a.asname or a.name] = (st.module or '', a.name)
                    if st.module == 'threading' and a.name not in THREADING_OK:
                        raise GenError('%s: unknown import from threading: %s' % (rel, a.name))
                    if st.module == 'multiprocessing' and a.name not in MULTIPROC_OK:
                        raise GenError('%s: unknown import from multiprocessing: %s' % (rel, a.name))
            elif isinstance(st, (ast.AsyncFunctionDef, ast.Await, ast.AsyncWith, ast.AsyncFor)):
                raise GenError('%s: async code is not modelled' % rel)

    def _check_module(self, name):
        for d in DENY_MODULES:
            if name == d or name.startswith(d + '.'):
                raise GenError('%s imports %s: background activities of that kind are not modelled'
                               % (self.rel, name))


def load_modules(repo):
    root = os.path.join(repo, 'simulators')
    mods = {}
    for d, dirs, files in os.walk(root):
        dirs[:] = sorted(x for x in dirs if not x.startswith(('.', '__')))
        for f in sorted(files):
            if not f.endswith('.py'):
                continue
            rel = os.path.relpath(os.path.join(d, f), root)
            if rel in SKIP_FILES or rel == '__init__.py':
                continue
            mods[rel] = Mod(os.path.join(d, f), rel)
    common = Mod(os.path.join(root, 'common.py'), 'common.py')
    return mods, common


def modfile(module):
    """'simulators.mscu.servo' -> candidate relative paths"""
    if not module.startswith('simulators'):
        return []
    parts = module.split('.')[1:]
    if not parts:
        return []
    return ['/'.join(parts) + '.py', '/'.join(parts) + '/__init__.py']


class World:
    def __init__(self, repo):
        self.mods, self.common = load_modules(repo)

    def resolve_class(self, mod, name):
        """(Mod, ClassDef) for a class name used in mod, or None when it is not repo code"""
        if name in mod.classes:
            return mod, mod.classes[name]
        if name in mod.imports:
            module, orig = mod.imports[name]
            if module == 'simulators.common' and orig in self.common.classes:
                return self.common, self.common.classes[orig]
            for rel in modfile(module):
                if rel in self.mods and orig in self.mods[rel].classes:
                    return self.mods[rel], self.mods[rel].classes[orig]
        return None

    def mro(self, mod, cls):
        """linearised (depth first, left to right, duplicates removed keeping the last) — enough for
        the single and diamond-over-BaseSystem inheritance present in the repo"""
        out = []

        def rec(m, c):
            out.append((m, c))
            for b in c.bases:
                if isinstance(b, ast.Name):
                    r = self.resolve_class(m, b.id)
                    if r:
                        rec(*r)
                    elif b.id not in ('object', 'Exception'):
                        # a base that is not repo code
                        if b.id not in m.imports:
                            raise GenError('%s: unresolved base class %s' % (m.rel, b.id))
                elif isinstance(b, ast.Attribute):
                    raise GenError('%s: base class expression %s not recognised' % (m.rel, U(b)))
        rec(mod, cls)
        seen = []
        for m, c in reversed(out):
            if not any(c is c2 for _, c2 in seen):
                seen.append((m, c))
        return list(reversed(seen))

    def is_system(self, mod, cls):
        return any(c.name in BASE_SYSTEMS and m is self.common for m, c in self.mro(mod, cls))


# ---------------------------------------------------------------------------------------------
# functions, statements, paths

def functions_of(cls_or_mod_body, prefix=''):
    """every FunctionDef (nested ones too) with a dotted name"""
    out = []
    for st in cls_or_mod_body:
        if isinstance(st, ast.FunctionDef):
            name = prefix + st.name
            out.append((name, st))
            out += nested_functions(st, name + '.')
    return out


def nested_functions(fn, prefix):
    out = []
    for st in ast.walk(fn):
        if st is not fn and isinstance(st, ast.FunctionDef):
            # only direct nesting levels are named; deeper ones get the same treatment recursively
            pass
    for st in iter_stmts(fn.body):
        if isinstance(st, ast.FunctionDef):
            out.append((prefix + st.name, st))
            out += nested_functions(st, prefix + st.name + '.')
    return out


def blocks_of(st):
    """the statement lists directly inside a compound statement (not entering nested defs)"""
    if isinstance(st, (ast.FunctionDef, ast.ClassDef, ast.Lambda)):
        return []
    out = []
    for field in ('body', 'orelse', 'finalbody'):
        b = getattr(st, field, None)
        if isinstance(b, list) and b and isinstance(b[0], ast.stmt):
            out.append(b)
    for h in getattr(st, 'handlers', []) or []:
        out.append(h.body)
    if isinstance(st, ast.Match):
        raise GenError('match statement not recognised')
    return out


def iter_stmts(body):
    """all statements of a function body, entering compound statements but not nested defs"""
    for st in body:
        yield st
        for b in blocks_of(st):
            yield from iter_stmts(b)


def path_to(body, target):
    """[(block, index, enclosing compound statement or None)] from the function body down to target"""
    for i, st in enumerate(body):
        if st is target:
            return [(body, i)]
        for b in blocks_of(st):
            p = path_to(b, target)
            if p:
                return [(body, i)] + p
    return None


def own_nodes(st):
    """ast nodes of a statement's own expressions: nested statements (the bodies of compound
    statements) and nested function definitions are not entered"""
    todo = [st]
    while todo:
        n = todo.pop()
        yield n
        for c in ast.iter_child_nodes(n):
            if isinstance(c, (ast.stmt, ast.ExceptHandler, ast.Lambda, ast.match_case)):
                continue
            todo.append(c)


def call_name(call):
    f = call.func
    if isinstance(f, ast.Name):
        return None, f.id
    if isinstance(f, ast.Attribute) and isinstance(f.value, ast.Name):
        return f.value.id, f.attr
    return None, None


def creation_kind(mod, call):
    base, name = call_name(call)
    if name is None:
        return None
    if base is None:
        imp = mod.imports.get(name)
        if imp and imp[0] == 'threading' and imp[1] in ('Thread', 'Timer'):
            return 'KThread' if imp[1] == 'Thread' else 'KTimer'
        if imp and imp[0] == 'http.server' and imp[1] == 'HTTPServer':
            return 'HTTPD'
        if imp and imp[0] == 'socket' and imp[1] == 'socket':
            return 'KSocket'
        if name in DENY_CALLS and imp:
            raise GenError('%s:%d: call of %s: not a modelled kind of background activity'
                           % (mod.rel, call.lineno, name))
        return None
    imp = mod.imports.get(base)
    if imp and imp[1] is None:
        module = imp[0]
        if module == 'threading':
            if name in ('Thread', 'Timer'):
                return 'KThread' if name == 'Thread' else 'KTimer'
            if name not in THREADING_OK and name not in ('current_thread', 'enumerate', 'active_count'):
                raise GenError('%s:%d: threading.%s not recognised' % (mod.rel, call.lineno, name))
            return None
        if module == 'socket':
            if name == 'socket':
                return 'KSocket'
            if name in DENY_CALLS:
                raise GenError('%s:%d: socket.%s not recognised' % (mod.rel, call.lineno, name))
            return None
        if module in ('http.server', 'socketserver', 'multiprocessing', 'os'):
            if name in DENY_CALLS or name in ('HTTPServer',):
                if name == 'HTTPServer':
                    return 'HTTPD'
                raise GenError('%s:%d: %s.%s not recognised' % (mod.rel, call.lineno, module, name))
    return None


def same(a, b):
    return ast.dump(a) == ast.dump(b)


def const_bool(node, where):
    if isinstance(node, ast.Constant) and isinstance(node.value, bool):
        return node.value
    raise GenError('%s: daemon flag is not a literal: %s' % (where, U(node)))


class Site:
    def __init__(self, **kw):
        self.__dict__.update(kw)


def tests_mention(test, target_src):
    """is the `if` test only about the attribute itself (truthiness / is_alive / isinstance)?"""
    src = U(test)
    allowed = {target_src, target_src + '.is_alive()', target_src + ' is not None',
               '%s and %s.is_alive()' % (target_src, target_src),
               '%s is not None and %s.is_alive()' % (target_src, target_src)}
    if src in allowed:
        return True
    if isinstance(test, ast.Call) and isinstance(test.func, ast.Name) and test.func.id == 'isinstance' \
            and test.args and U(test.args[0]) == target_src:
        return True
    return False


def kills_in(stmts, target_src):
    """'always' / 'cond' / None: is `target_src` cancelled (closed, shut down) by these statements"""
    best = None
    for st in stmts:
        r = None
        if isinstance(st, ast.Expr) and isinstance(st.value, ast.Call):
            f = st.value.func
            if isinstance(f, ast.Attribute) and f.attr in KILLERS and U(f.value) == target_src:
                r = 'always'
        elif isinstance(st, ast.If):
            r = kills_in(st.body, target_src)
            if r == 'always' and not tests_mention(st.test, target_src):
                r = 'cond'
        elif isinstance(st, ast.Try):
            r = kills_in(st.body, target_src) or kills_in(st.finalbody, target_src)
        elif isinstance(st, ast.With):
            r = kills_in(st.body, target_src)
        if r == 'always':
            return 'always'
        best = best or r
    return best


def guard_before(fn, stmt, target_src, where):
    """what is done to `target_src` (e.g. 'self.dc_thread') on every path before `stmt` in fn"""
    path = path_to(fn.body, stmt)
    if path is None:
        raise GenError('%s: statement not found in its function' % where)
    found_cond = False
    for block, idx in path:
        r = kills_in(block[:idx], target_src)
        if r == 'always':
            return 'GCancel'
        if r == 'cond':
            found_cond = True
    return 'GCond' if found_cond else 'GNone'


def enclosing_conds(fn, stmt, target_src):
    """`if` tests enclosing stmt that are not about the attribute itself"""
    path = path_to(fn.body, stmt)
    conds = []
    for (block, idx), nxt in zip(path, path[1:]):
        st = block[idx]
        if isinstance(st, ast.If):
            inbody = nxt[0] is st.body
            if not tests_mention(st.test, target_src):
                conds.append(('' if inbody else 'not ') + U(st.test))
    return tuple(conds)


# ---------------------------------------------------------------------------------------------

class Unit:
    """one System class"""

    def __init__(self, world, name, mod, cls):
        self.world, self.name, self.mod, self.cls = world, name, mod, cls
        self.mro = world.mro(mod, cls)
        pkg = mod.rel.split('/')[0]
        self.helpers = []          # (Mod, ClassDef) of non-System classes of the package
        self.modfuncs = []         # (Mod, name, FunctionDef)
        for rel, m in sorted(world.mods.items()):
            if rel.split('/')[0] != pkg:
                continue
            for c in m.classes.values():
                if not world.is_system(m, c) and not self._is_factory(m, c):
                    self.helpers.append((m, c))
            for fname, f in m.functions.items():
                self.modfuncs.append((m, fname, f))
        self.sites = []
        self.clears = []
        self.stop = {}             # attr -> set of actions
        self.stop_conds = {}       # attr -> set of cond tuples
        self.flag = False
        self.reply = None
        self.del_actions = {}
        self.collect_sites()
        self.collect_stop()

    def _is_factory(self, m, c):
        return any(isinstance(b, ast.Name) and b.id == 'MultiTypeSystem' for b in c.bases)

    # -- creation sites -------------------------------------------------------------------------
    def scopes(self):
        """(Mod, class name or '', owner kind, dotted function name, FunctionDef)"""
        out = []
        for m, c in self.mro:
            if m is self.world.common:
                continue
            for fname, f in functions_of(c.body):
                out.append((m, c.name, 'self', fname, f))
        for m, c in self.helpers:
            for fname, f in functions_of(c.body):
                out.append((m, c.name, 'helper', fname, f))
        for m, fname0, f0 in self.modfuncs:
            out.append((m, '', 'module', fname0, f0))
            for fname, f in nested_functions(f0, fname0 + '.'):
                out.append((m, '', 'module', fname, f))
        return out

    def find_reinit(self):
        """classes whose __init__ is called again from an ordinary method (mistral.set_default calls
        GenericBackendSystem.__init__(self)): their __init__ stores are ordinary overwrites / clears"""
        out = set()
        for m, cname, okind, fname, fn in self.scopes():
            if fname.split('.')[-1] == '__init__':
                continue
            for n in ast.walk(fn):
                if isinstance(n, ast.Call) and isinstance(n.func, ast.Attribute) and n.func.attr == '__init__':
                    v = n.func.value
                    if isinstance(v, ast.Name) and v.id != 'self':
                        out.add(v.id)
                    else:
                        out.add('*')      # self.__init__() / super().__init__(): every class of the hierarchy
        return out

    def is_init(self, cname, fname):
        if fname.split('.')[-1] != '__init__':
            return False
        return '*' not in self.reinit and cname not in self.reinit

    def collect_sites(self):
        self.reinit = self.find_reinit()
        pending_chain = []
        slot_stores = []     # every `X.attr = <expr>` seen, to find stores into slots that are not recognised
        for m, cname, okind, fname, fn in self.scopes():
            where0 = '%s %s.%s' % (m.rel, cname, fname)
            stmts = list(iter_stmts(fn.body))
            for lam in (x for x in ast.walk(fn) if isinstance(x, ast.Lambda)):
                for n in ast.walk(lam.body):
                    if isinstance(n, ast.Call) and creation_kind(m, n):
                        raise GenError('%s:%d: creation inside a lambda' % (where0, n.lineno))
            handled_calls = set()
            for st in stmts:
                for node in own_nodes(st):
                    if not isinstance(node, ast.Call):
                        continue
                    kind = creation_kind(m, node)
                    if kind is None:
                        continue
                    if id(node) in handled_calls:
                        continue
                    handled_calls.add(id(node))
                    where = '%s:%d' % (where0, node.lineno)
                    self.add_site(m, cname, okind, fname, fn, stmts, st, node, kind, where, pending_chain)
            for st in stmts:
                if isinstance(st, ast.Assign):
                    for t in st.targets:
                        if isinstance(t, ast.Attribute):
                            slot_stores.append((m, cname, okind, fname, fn, st, t))
                elif isinstance(st, ast.Delete):
                    for t in st.targets:
                        if isinstance(t, ast.Attribute):
                            slot_stores.append((m, cname, okind, fname, fn, st, t))
        attrs = {s.attr for s in self.sites if s.attr}
        multi_attrs = {s.attr for s in self.sites if s.attr and s.multi}
        # re-arm stores: `self.attr = t` inside the callback of a timer held in the same attribute
        callbacks = {}
        for s in self.sites:
            if s.kind == 'KTimer' and s.attr and s.callback:
                callbacks.setdefault(s.attr, set()).add(s.callback)
        for s in pending_chain:
            if s.attr and s.fn.split('.')[-1] in callbacks.get(s.attr, ()) or \
                    (s.attr and s.fn in callbacks.get(s.attr, ())):
                s.guard = 'GChain'
        # clears and unrecognised stores
        recognised = {id(s.store_stmt) for s in self.sites if s.store_stmt is not None}
        for m, cname, okind, fname, fn, st, t in slot_stores:
            if t.attr not in attrs:
                continue
            where = '%s %s.%s:%d' % (m.rel, cname, fname, st.lineno)
            if id(st) in recognised:
                continue
            if isinstance(st, ast.Delete):
                raise GenError('%s: `del` of slot attribute %s not recognised' % (where, t.attr))
            if isinstance(st.value, ast.Constant) and st.value.value is None:
                if self.is_init(cname, fname):
                    continue
                g = guard_before(fn, st, U(t), where)
                self.clears.append(Site(fn=fname, attr=t.attr, guard=g, where=where))
                continue
            if t.attr in multi_attrs and self.is_init(cname, fname) and (
                    isinstance(st.value, (ast.List, ast.Set)) or (
                        isinstance(st.value, ast.Call) and isinstance(st.value.func, ast.Name)
                        and st.value.func.id in ('Queue', 'list', 'set', 'deque') and not st.value.args)):
                continue      # the (empty) collection itself, created once in __init__
            raise GenError('%s: store into slot attribute %s of an object that is not a recognised '
                           'creation: %s' % (where, t.attr, U(st)))

    def add_site(self, m, cname, okind, fname, fn, stmts, st, call, kind, where, pending_chain):
        s = Site(fn=fname, cls=cname, okind=okind, kind=kind, attr=None, multi=False, daemon=False,
                 started=False, guard='GNone', where=where, callback=None, serves=None,
                 store_stmt=None, conds=(), owner_expr=None)
        target = None            # the expression naming the object after creation
        if isinstance(st, ast.Assign) and st.value is call and len(st.targets) == 1:
            t = st.targets[0]
            if isinstance(t, ast.Attribute) and isinstance(t.value, ast.Name):
                s.attr, s.owner_expr, target = t.attr, t.value.id, t
                s.store_stmt = st
                if self.is_init(cname, fname):
                    s.guard = 'GInit'
                else:
                    s.guard = guard_before(fn, st, U(t), where)
                s.conds = enclosing_conds(fn, st, U(t))
            elif isinstance(t, ast.Name):
                target = t
                # stored later?
                for st2 in stmts:
                    if isinstance(st2, ast.Assign) and isinstance(st2.value, ast.Name) \
                            and st2.value.id == t.id and st2.lineno > st.lineno:
                        for t2 in st2.targets:
                            if isinstance(t2, ast.Attribute) and isinstance(t2.value, ast.Name):
                                if s.attr:
                                    raise GenError('%s: object stored twice' % where)
                                s.attr, s.owner_expr, s.store_stmt = t2.attr, t2.value.id, st2
                                s.guard = guard_before(fn, st2, U(t2), where)
                                pending_chain.append(s)
                            else:
                                raise GenError('%s: store shape %s not recognised' % (where, U(st2)))
                    if isinstance(st2, ast.Expr) and isinstance(st2.value, ast.Call):
                        c2 = st2.value
                        if isinstance(c2.func, ast.Attribute) and c2.func.attr in ('put', 'append', 'add') \
                                and len(c2.args) == 1 and isinstance(c2.args[0], ast.Name) \
                                and c2.args[0].id == t.id and isinstance(c2.func.value, ast.Attribute) \
                                and isinstance(c2.func.value.value, ast.Name):
                            if s.attr:
                                raise GenError('%s: object stored twice' % where)
                            s.attr, s.owner_expr = c2.func.value.attr, c2.func.value.value.id
                            s.multi, s.store_stmt, s.guard = True, st2, 'GNone'
                # any other use of the local as a call argument / return value lets it escape
                for st2 in stmts:
                    for n in own_nodes(st2):
                        if isinstance(n, ast.Return) and n.value is not None and \
                                any(isinstance(x, ast.Name) and x.id == t.id for x in ast.walk(n.value)):
                            raise GenError('%s: created object is returned' % where)
            else:
                raise GenError('%s: assignment target %s not recognised' % (where, U(t)))
        elif isinstance(st, ast.Expr) and isinstance(st.value, ast.Call) \
                and isinstance(st.value.func, ast.Attribute) and st.value.func.value is call \
                and st.value.func.attr == 'start':
            s.started = True      # Timer(...).start(): anonymous
        else:
            raise GenError('%s: creation inside an expression that is not recognised: %s' % (where, U(st)))
        # daemon flag
        for kw in call.keywords:
            if kw.arg == 'daemon':
                s.daemon = const_bool(kw.value, where)
            if kw.arg is None:
                raise GenError('%s: **kwargs in creation call' % where)
        start_line = None
        if target is not None:
            tsrc = U(target)
            for st2 in stmts:
                if isinstance(st2, ast.Expr) and isinstance(st2.value, ast.Call):
                    f = st2.value.func
                    if isinstance(f, ast.Attribute) and f.attr == 'start' and U(f.value) == tsrc \
                            and st2.lineno >= st.lineno:
                        s.started = True
                        start_line = st2.lineno if start_line is None else min(start_line, st2.lineno)
                    if isinstance(f, ast.Attribute) and f.attr == 'setDaemon' and U(f.value) == tsrc:
                        raise GenError('%s: setDaemon() not recognised' % where)
            for st2 in stmts:
                if isinstance(st2, ast.Assign) and len(st2.targets) == 1:
                    t2 = st2.targets[0]
                    if isinstance(t2, ast.Attribute) and t2.attr == 'daemon' and U(t2.value) == tsrc \
                            and st2.lineno >= st.lineno:
                        s.daemon = const_bool(st2.value, where)
                        if start_line is not None and st2.lineno > start_line:
                            raise GenError('%s: daemon flag set after start()' % where)
        if kind == 'KSocket':
            s.started = True
        if kind == 'HTTPD':
            s.kind, s.started = 'KSocket', True      # the listening socket of the auxiliary server
        # callback / served server
        if kind in ('KTimer', 'KThread'):
            cb = None
            if kind == 'KTimer':
                if len(call.args) >= 2:
                    cb = call.args[1]
            for kw in call.keywords:
                if kw.arg in ('function', 'target'):
                    cb = kw.value
            if cb is not None:
                if isinstance(cb, ast.Attribute) and cb.attr == 'serve_forever' \
                        and isinstance(cb.value, ast.Attribute):
                    s.kind, s.serves = 'KHttpd', cb.value.attr
                elif isinstance(cb, ast.Attribute):
                    s.callback = cb.attr
                elif isinstance(cb, ast.Name):
                    s.callback = fname + '.' + cb.id if any(
                        isinstance(x, ast.FunctionDef) and x.name == cb.id for x in iter_stmts(fn.body)
                    ) else cb.id
                elif isinstance(cb, ast.Lambda):
                    s.callback = '<lambda>'
                else:
                    raise GenError('%s: callback %s not recognised' % (where, U(cb)))
        self.sites.append(s)

    # -- system_stop ----------------------------------------------------------------------------
    def find_method(self, name, after=None):
        """first definition of `name` in the MRO (after class `after`)"""
        started = after is None
        for m, c in self.mro:
            if not started:
                if c is after:
                    started = True
                continue
            for st in c.body:
                if isinstance(st, ast.FunctionDef) and st.name == name:
                    return m, c, st
        return None

    def collect_stop(self):
        r = self.find_method('system_stop')
        if r is None:
            raise GenError('%s: no system_stop in the class hierarchy' % self.name)
        self.stop_depth = 0
        self.walk_method(*r, env={}, sink=self.stop, conds=())
        d = self.find_method('__del__')
        if d is not None:
            saved = (self.flag, self.reply, self.stop_conds)
            self.stop_conds = {}
            try:
                self.walk_method(*d, env={}, sink=self.del_actions, conds=(), toplevel=False)
            except GenError:
                self.del_actions = {'?': {'unrecognised'}}
            self.flag, self.reply, self.stop_conds = saved

    def walk_method(self, m, c, fn, env, sink, conds, toplevel=True, helper=False):
        self.stop_depth += 1
        if self.stop_depth > 40:
            raise GenError('%s: system_stop call chain too deep' % self.name)
        self.walk_block(m, c, fn, fn.body, dict(env), sink, conds, toplevel, helper)
        self.stop_depth -= 1

    def act(self, sink, attr, action, conds):
        sink.setdefault(attr, set()).add(action)
        if sink is self.stop:
            self.stop_conds.setdefault(attr, set()).add(
                tuple(src for src, about in conds if about != attr))

    def walk_block(self, m, c, fn, body, env, sink, conds, toplevel, helper):
        where0 = '%s %s.%s' % (m.rel, c.name, fn.name)
        for st in body:
            where = '%s:%d' % (where0, st.lineno)
            if isinstance(st, ast.Expr) and isinstance(st.value, ast.Constant):
                continue
            if isinstance(st, (ast.Pass, ast.Break, ast.Continue)):
                continue
            if isinstance(st, ast.Expr) and isinstance(st.value, ast.Call):
                self.walk_call(m, c, fn, st.value, env, sink, conds, where, helper)
                continue
            if isinstance(st, ast.Assign) and len(st.targets) == 1:
                t = st.targets[0]
                # self.stop.value = True
                if isinstance(t, ast.Attribute) and t.attr == 'value' and isinstance(t.value, ast.Attribute) \
                        and isinstance(t.value.value, ast.Name) and t.value.value.id == 'self' \
                        and isinstance(st.value, ast.Constant) and st.value.value is True:
                    if not helper and not conds:
                        self.flag = True
                    continue
                # v = self.Q.get_nowait()
                if isinstance(t, ast.Name) and isinstance(st.value, ast.Call) \
                        and isinstance(st.value.func, ast.Attribute) \
                        and st.value.func.attr in ('get_nowait', 'get', 'pop') \
                        and isinstance(st.value.func.value, ast.Attribute) \
                        and isinstance(st.value.func.value.value, ast.Name) \
                        and st.value.func.value.value.id == 'self':
                    env[t.id] = ('member', st.value.func.value.attr)
                    continue
                # self.X = None after the calls on it
                if isinstance(t, ast.Attribute) and isinstance(t.value, ast.Name) and t.value.id == 'self' \
                        and isinstance(st.value, ast.Constant) and st.value.value is None:
                    continue
                # local = self.X
                if isinstance(t, ast.Name) and isinstance(st.value, ast.Attribute) \
                        and isinstance(st.value.value, ast.Name) and st.value.value.id == 'self':
                    env[t.id] = ('alias', st.value.attr)
                    continue
                continue      # any other assignment: no effect on what is cancelled / joined
            if isinstance(st, (ast.AugAssign, ast.AnnAssign, ast.Assert, ast.Global, ast.Nonlocal,
                               ast.Import, ast.ImportFrom, ast.Delete)):
                continue
            if isinstance(st, ast.With):
                self.walk_block(m, c, fn, st.body, env, sink, conds, toplevel, helper)
                continue
            if isinstance(st, ast.Expr):
                continue      # an expression statement that is not a call
            if isinstance(st, ast.Assign):
                continue
            if isinstance(st, ast.If):
                tsrc = U(st.test)
                about = self.test_is_about_slot(st.test, env)
                self.walk_block(m, c, fn, st.body, env, sink, conds + ((tsrc, about),), toplevel, helper)
                self.walk_block(m, c, fn, st.orelse, env, sink, conds + (('not ' + tsrc, None),),
                                toplevel, helper)
                continue
            if isinstance(st, ast.Try):
                self.walk_block(m, c, fn, st.body, env, sink, conds, toplevel, helper)
                for h in st.handlers:
                    self.walk_block(m, c, fn, h.body, env, sink, conds + (('except', None),), toplevel, helper)
                self.walk_block(m, c, fn, st.orelse, env, sink, conds, toplevel, helper)
                self.walk_block(m, c, fn, st.finalbody, env, sink, conds, toplevel, helper)
                continue
            if isinstance(st, ast.While):
                if not (isinstance(st.test, ast.Constant) and st.test.value is True):
                    raise GenError('%s: loop in the system_stop path not recognised: %s' % (where, tsrc_of(st)))
                self.walk_block(m, c, fn, st.body, env, sink, conds, toplevel, helper)
                continue
            if isinstance(st, ast.For):
                it = st.iter
                coll = None
                if isinstance(it, ast.Call) and isinstance(it.func, ast.Attribute) \
                        and it.func.attr == 'values' and not it.args \
                        and isinstance(it.func.value, ast.Attribute) \
                        and isinstance(it.func.value.value, ast.Name) and it.func.value.value.id == 'self':
                    coll = it.func.value.attr
                elif isinstance(it, ast.Attribute) and isinstance(it.value, ast.Name) and it.value.id == 'self':
                    coll = it.attr
                if coll is None or not isinstance(st.target, ast.Name) or st.orelse:
                    raise GenError('%s: loop in the system_stop path not recognised: %s' % (where, U(it)))
                env2 = dict(env)
                env2[st.target.id] = ('elem', coll)
                self.walk_block(m, c, fn, st.body, env2, sink, conds, toplevel, helper)
                continue
            if isinstance(st, ast.Return):
                v = st.value
                if any(about is None for _, about in conds):
                    raise GenError('%s: return under a condition in the system_stop path: what follows '
                                   'is not always executed' % where)
                if helper or not toplevel:
                    break         # the rest of the block is dead code
                if isinstance(v, ast.Call) and isinstance(v.func, ast.Attribute) and v.func.attr == fn.name \
                        and isinstance(v.func.value, ast.Call) and isinstance(v.func.value.func, ast.Name) \
                        and v.func.value.func.id == 'super' and not v.args:
                    if conds:
                        raise GenError('%s: conditional return in system_stop' % where)
                    nxt = self.find_method(fn.name, after=c)
                    if nxt is None:
                        raise GenError('%s: super().%s() not resolved' % (where, fn.name))
                    self.walk_method(*nxt, env={}, sink=sink, conds=conds)
                elif isinstance(v, ast.Constant) and isinstance(v.value, str):
                    if conds:
                        raise GenError('%s: conditional return in system_stop' % where)
                    self.reply = v.value
                else:
                    raise GenError('%s: return value of system_stop not recognised: %s'
                                   % (where, U(v) if v else 'None'))
                break
            raise GenError('%s: statement in the system_stop path not recognised: %s'
                           % (where, type(st).__name__))

    def test_is_about_slot(self, test, env):
        """name of the attribute when the test only asks whether that attribute holds a (live)
        object: `self.X`, `self.X.is_alive()`, `self.X and self.X.is_alive()`, isinstance(self.X, ..)"""
        src = U(test)
        for n in ast.walk(test):
            if isinstance(n, ast.Attribute) and isinstance(n.value, ast.Name) and n.value.id == 'self':
                a = 'self.' + n.attr
                if src in (a, a + '.is_alive()', '%s and %s.is_alive()' % (a, a), a + ' is not None'):
                    return n.attr
                if src.startswith('isinstance(%s,' % a):
                    return n.attr
            if isinstance(n, ast.Name) and env.get(n.id, ('',))[0] == 'alias':
                if src in (n.id, n.id + '.is_alive()', '%s is not None' % n.id,
                           '%s and %s.is_alive()' % (n.id, n.id)):
                    return env[n.id][1]
        return None

    def walk_call(self, m, c, fn, call, env, sink, conds, where, helper):
        f = call.func
        if isinstance(f, ast.Attribute):
            v = f.value
            # self.X.<m>()
            if isinstance(v, ast.Attribute) and isinstance(v.value, ast.Name) and v.value.id == 'self':
                if f.attr in STOP_METHODS:
                    self.act(sink, v.attr, STOP_METHODS[f.attr], conds)
                    return
                return        # any other method of an attribute: not a cancel / join / shutdown / close
            if isinstance(v, ast.Name):
                if v.id == 'self':
                    r = self.find_method(f.attr) if not helper else self.find_in_class(c, m, f.attr)
                    if r is None:
                        raise GenError('%s: self.%s() not resolved' % (where, f.attr))
                    self.walk_method(*r, env={}, sink=sink, conds=conds, toplevel=False, helper=helper)
                    return
                kind = env.get(v.id)
                if kind and kind[0] in ('member', 'alias'):
                    if f.attr in STOP_METHODS:
                        self.act(sink, kind[1], STOP_METHODS[f.attr], conds)
                        return
                    return
                if kind and kind[0] == 'elem':
                    cands = [(hm, hc, st) for hm, hc in self.helpers for st in hc.body
                             if isinstance(st, ast.FunctionDef) and st.name == f.attr]
                    if len(cands) != 1:
                        raise GenError('%s: method %s of the elements of self.%s resolves to %d classes'
                                       % (where, f.attr, kind[1], len(cands)))
                    self.walk_method(*cands[0], env={}, sink=sink, conds=conds, toplevel=False, helper=True)
                    return
            # super().system_stop() as a statement
            if isinstance(v, ast.Call) and isinstance(v.func, ast.Name) and v.func.id == 'super':
                nxt = self.find_method(f.attr, after=c)
                if nxt is None:
                    raise GenError('%s: super().%s() not resolved' % (where, f.attr))
                self.walk_method(*nxt, env={}, sink=sink, conds=conds, toplevel=False)
                return
        # logging.debug(...), print(...), time.sleep(...), a module-level helper: ignoring a call can
        # only lose stop actions, i.e. make the check stricter, never hide a missing cancel
        return

    def find_in_class(self, c, m, name):
        for st in c.body:
            if isinstance(st, ast.FunctionDef) and st.name == name:
                return m, c, st
        return None

    # -- result -----------------------------------------------------------------------------------
    def finish(self):
        """merge the HTTP server's shutdown into the serving thread's attribute; check conditions"""
        for s in self.sites:
            if s.kind == 'KHttpd' and s.serves and s.attr:
                if 'AShutdown' in self.stop.get(s.serves, ()):
                    self.stop.setdefault(s.attr, set())
                    if 'AJoin' in self.stop[s.attr]:
                        self.stop[s.attr].add('AShutdown')
        for attr, condsets in self.stop_conds.items():
            for conds in condsets:
                conds = tuple(x for x in conds if x != 'except')
                if not conds:
                    continue
                for s in self.sites:
                    if s.attr == attr and tuple(s.conds) != conds:
                        raise GenError('%s: system_stop acts on %s only under %s but %s creates it under %s'
                                       % (self.name, attr, list(conds), s.where, list(s.conds)))


def tsrc_of(st):
    return U(st.test) if hasattr(st, 'test') else type(st).__name__


def units(world):
    out = []
    for rel, m in sorted(world.mods.items()):
        for cname, c in m.classes.items():
            if cname != 'System':
                if world.is_system(m, c) and not cname.startswith('Generic'):
                    raise GenError('%s: System-like class %s with an unexpected name' % (rel, cname))
                continue
            if any(isinstance(b, ast.Name) and b.id == 'MultiTypeSystem' for b in c.bases):
                continue
            if not world.is_system(m, c):
                raise GenError('%s: class System does not derive from BaseSystem' % rel)
            name = rel[:-3].replace('/__init__', '').replace('/', '_')
            out.append(Unit(world, name, m, c))
    return out


def outside_functions(tree):
    """Call nodes of module-level and class-level code (not inside any function)"""
    todo = list(tree.body)
    while todo:
        n = todo.pop()
        if isinstance(n, (ast.FunctionDef, ast.AsyncFunctionDef, ast.Lambda)):
            continue
        if isinstance(n, ast.Call):
            yield n
        todo.extend(ast.iter_child_nodes(n))


def check_outside(world, repo):
    """creation sites the per-class tables cannot see: fail closed"""
    root = os.path.join(repo, 'simulators')
    shared = [world.common, Mod(os.path.join(root, 'utils.py'), 'utils.py')]
    for m in shared:
        for n in ast.walk(m.tree):
            if isinstance(n, ast.Call) and creation_kind(m, n):
                raise GenError('%s:%d: background activity created in shared code' % (m.rel, n.lineno))
    for rel, m in sorted(world.mods.items()):
        for n in outside_functions(m.tree):
            if creation_kind(m, n):
                raise GenError('%s:%d: background activity created at import / class-definition time'
                               % (rel, n.lineno))


def analyse(repo=REPO):
    world = World(repo)
    check_outside(world, repo)
    us = units(world)
    for u in us:
        u.finish()
    return us


# ---------------------------------------------------------------------------------------------
# Coq output

def cstr(s):
    assert '"' not in s
    return '"%s"' % s


def cbool(b):
    return 'true' if b else 'false'


def site_term(s):
    return '(mkSite %s %s %s %s %s %s %s)' % (
        cstr(s.fn), s.kind, '(Some %s)' % cstr(s.attr) if s.attr else 'None', cbool(s.multi),
        cbool(s.daemon), cbool(s.started), s.guard)


def clear_term(c):
    return '(mkClear %s %s %s)' % (cstr(c.fn), cstr(c.attr), c.guard)


ORDER = ['ACancel', 'AJoin', 'AShutdown', 'AClose']


def table_term(u):
    sites = ';\n     '.join(site_term(s) for s in u.sites)
    clears = '; '.join(clear_term(c) for c in u.clears)
    stops = '; '.join('(%s, [%s])' % (cstr(a), '; '.join(x for x in ORDER if x in acts))
                      for a, acts in sorted(u.stop.items()))
    reply = 'None' if u.reply is None else '(Some [%s])' % '; '.join(str(ord(ch)) for ch in u.reply)
    return ('mkTable\n    [%s]\n    [%s]\n    [%s]\n    %s\n    %s'
            % (sites, clears, stops, cbool(u.flag), reply))


def coq_text(us):
    lines = ['(* GENERATED by gen/ldg_ledger.py from the simulators source on every run; do not edit.',
             '   Per System class: creation sites of background activities, clears, and what system_stop does. *)',
             'From Coq Require Import String.',
             'From DS Require Import Base.Prelude Model.LdgLedger.',
             'Open Scope string_scope.', '']
    for u in us:
        lines.append('(* %s : %s *)' % (u.name, u.mod.rel))
        for s in u.sites:
            lines.append('(*   site %s.%s -> %s%s *)' % (s.cls, s.fn, s.attr, ' serves ' + s.serves if s.serves else ''))
        lines.append('Definition tbl_%s : table :=\n  %s.' % (u.name, table_term(u)))
        lines.append('')
    lines.append('Definition tables : list (string * table) :=\n  [%s].'
                 % ';\n   '.join('(%s, tbl_%s)' % (cstr(u.name), u.name) for u in us))
    return '\n'.join(lines) + '\n'


def generate(repo=REPO):
    us = analyse(repo)
    write_if_changed(os.path.join(COQ, 'Gen', 'LdgLedger.v'), coq_text(us))
    return us


if __name__ == '__main__':
    import sys
    for u in analyse(sys.argv[1] if len(sys.argv) > 1 else REPO):
        print('==', u.name, 'flag', u.flag, 'reply', repr(u.reply))
        for s in u.sites:
            print('   site', s.cls, s.fn, s.kind, s.attr, 'multi' if s.multi else '', 'daemon' if s.daemon else 'ND',
                  'started' if s.started else 'unstarted', s.guard, s.callback, s.serves, s.conds)
        for c in u.clears:
            print('   clear', c.fn, c.attr, c.guard)
        print('   stop', {k: sorted(v) for k, v in u.stop.items()}, 'conds', u.stop_conds)
        print('   del', {k: sorted(v) for k, v in u.del_actions.items()})
