"""Translator of agent `Acmd` (C14, c03_acu, c10_acu): simulators/acu/{__init__,axis_status,
pointing_status,acu_utils}.py  ->  coq/Gen/AcmdTables.v

Fail closed: every constant is either an evaluated attribute of the imported module or a
literal taken out of a function whose normalised source (`ast.unparse`) matches, line by line,
the shape the hand-written models were written for.  Anything else raises GenError (a broken tie).

What is emitted
  * start/end flags (acu and acu_utils must agree), `System.subsystems`, `System.commands`,
    which handler exists on which subsystem class, `MasterAxisStatus.mode_commands`;
  * the framing literals of `System.parse` (4, 8, 12, 16, minimum declared length) and of
    `_parse_commands` (26, 42, 20, offsets of the id / subsystem / sequence-length fields);
  * the constructor arguments of AZ and EL (motors, maximum rate as binary64 bits, operating
    range, start position, stow positions);
  * the permission sets and numeric literals of `_validate_mode_command`.
"""
import ast
import os
import re
import struct

from vlib.core import GenError, zlit, zlist


def _fn(tree, cls, name):
    for node in tree.body:
        if isinstance(node, ast.ClassDef) and node.name == cls:
            for f in node.body:
                if isinstance(f, ast.FunctionDef) and f.name == name:
                    return f
    raise GenError('function %s.%s not found' % (cls, name))


def _body_lines(fn):
    body = list(fn.body)
    if body and isinstance(body[0], ast.Expr) and isinstance(body[0].value, ast.Constant) \
            and isinstance(body[0].value.value, str):
        body = body[1:]
    return '\n'.join(ast.unparse(s) for s in body).splitlines()


def _expect(where, got, want):
    """compare normalised source lines; `want` may contain @name@ holes standing for a literal;
    returns the dict of hole values"""
    import re
    vals = {}
    if len(got) != len(want):
        raise GenError('%s: %d source lines, expected %d\n%s' % (where, len(got), len(want), '\n'.join(got)))
    for g, w in zip(got, want):
        pat = re.escape(w)
        seen = set()

        def hole(mo):
            name = mo.group(1)
            if name in seen:      # the same literal twice on one line (e.g. [:26] ... [26:])
                return '(?P=%s)' % name
            seen.add(name)
            return '(?P<%s>-?[0-9.]+)' % name
        pat = re.sub(r'@(\w+)@', hole, pat)
        m = re.fullmatch(pat, g)
        if not m:
            raise GenError('%s: unknown source shape\n  got:      %s\n  expected: %s' % (where, g, w))
        for k, v in m.groupdict().items():
            if k in vals and vals[k] != v:
                raise GenError('%s: literal %s differs between occurrences (%s, %s)' % (where, k, vals[k], v))
            vals[k] = v
    return vals


PARSE_SHAPE = """self.msg += byte
if len(self.msg) <= @n_flag@:
    if self.msg != start_flag[:len(self.msg)]:
        self.msg = ''
if not self.msg:
    return False
if len(self.msg) == @at_len@:
    self.msg_length = utils.string_to_uint(self.msg[-4:])
    if self.msg_length < @min_len@:
        self._set_default()
        raise ValueError('Declared message length too short.')
if len(self.msg) == @at_cnt@:
    cmd_counter = utils.string_to_uint(self.msg[-4:])
    if cmd_counter == self.cmd_counter:
        self._set_default()
        raise ValueError('Duplicated command counter.')
    self.cmd_counter = cmd_counter
if len(self.msg) == @at_num@:
    self.cmds_number = utils.string_to_int(self.msg[-4:])
if len(self.msg) > @at_num@ and len(self.msg) == self.msg_length:
    msg = self.msg
    self._set_default()
    if msg[-4:] != end_flag:
        raise ValueError(f'Wrong end flag: got {msg[-4:]}, expected {end_flag}.')
    self._parse_commands(msg)
return True""".splitlines()

# the pinned (unrepaired) tree lacks the minimum-length rejection: recognised, emitted as min_len 0
PARSE_SHAPE_PINNED = [ln for i, ln in enumerate(PARSE_SHAPE) if i not in (8, 9, 10)]

PARSE_COMMANDS_SHAPE = """cmds_number = utils.string_to_int(msg[12:16])
commands_string = msg[16:-4]
commands = []
subsystems = []
while commands_string:
    current_id = utils.string_to_uint(commands_string[:2])
    if current_id in [1, 2]:
        if len(commands_string) < @cmd_len@:
            raise ValueError('Malformed command.')
        command = commands_string[:@cmd_len@]
        commands_string = commands_string[@cmd_len@:]
    elif current_id == 4:
        header = commands_string[:@pt_head@]
        sequence_len = utils.string_to_uint(header[16:18])
        expected_length = @pt_head@ + sequence_len * @pt_entry@
        if len(commands_string) < expected_length:
            raise ValueError('Malformed program track sequence.')
        command = commands_string[:expected_length]
        commands_string = commands_string[expected_length:]
    else:
        raise ValueError('Unknown command.')
    subsystem = utils.string_to_uint(command[2:4])
    if subsystem not in subsystems:
        subsystems.append(subsystem)
        commands.append(command)
    else:
        raise ValueError(f'More than one command for subsystem {subsystem}.')
if len(commands) != cmds_number:
    raise ValueError('Malformed message.')
methods = []
for command in commands:
    method = self._get_method(command)
    if not method:
        raise ValueError('Command has invalid parameters.')
    methods.append(method)
for command, method in zip(commands, methods):
    t = Thread(target=method, args=(command, self.stop))
    t.daemon = True
    t.start()
    self.command_threads.put(t)""".splitlines()

GET_METHOD_SHAPE = """command_id = utils.string_to_uint(command[:2])
subsystem_id = utils.string_to_uint(command[2:4])
command_name = self.commands.get(command_id)
subsystem_name = self.subsystems.get(subsystem_id)
command_method = None
if subsystem_name:
    subsystem = getattr(self, subsystem_name)
    command_method = getattr(subsystem, command_name, None)
return command_method""".splitlines()

VALIDATE_SHAPE = """received_command_answer = 9
axis_state = self.axis_state
if mode_id == 2 and axis_state != @st_inactive@:
    received_command_answer = 4
elif mode_id in [3, 4, 5, 7, 8, 52] and axis_state != @st_active@:
    received_command_answer = 4
elif mode_id == 15 and axis_state not in [0, 1]:
    received_command_answer = 4
elif mode_id == 50:
    if not self.stowPosOk:
        received_command_answer = 4
if mode_id == 3:
    if not self.min_pos <= parameter_1 <= self.max_pos:
        received_command_answer = 5
    if not abs(parameter_2) <= self.max_velocity:
        received_command_answer = 5
elif mode_id == 4:
    desired_pos = self.p_Ist / 1000000 + parameter_1
    if not self.min_pos <= desired_pos <= self.max_pos:
        received_command_answer = 5
    if not abs(parameter_2) <= self.max_velocity:
        received_command_answer = 5
elif mode_id == 5:
    if not abs(parameter_1) <= @slew_limit@:
        received_command_answer = 5
    if not abs(parameter_2) <= self.max_velocity:
        received_command_answer = 5
elif mode_id == 8:
    if not abs(parameter_2) <= self.max_velocity:
        received_command_answer = 5
elif mode_id == 52:
    if self.stow_pos:
        if not 0 <= parameter_1 < len(self.stow_pos):
            received_command_answer = 5
        if not abs(parameter_2) <= @stow_rate_factor@ * self.max_velocity:
            received_command_answer = 5
return received_command_answer""".splitlines()

MODE_COMMAND_SHAPE = """cmd_cnt = utils.string_to_uint(cmd[4:8])
mode_id = utils.string_to_int(cmd[8:10])
par_1 = utils.string_to_real(cmd[10:18], 2)
par_2 = utils.string_to_real(cmd[18:26], 2)
command = self.mode_commands.get(mode_id)
if command is None or command == '_ignore':
    self.received_mode_command_counter = cmd_cnt
    self.received_mode_command = 0
    self.received_mode_command_answer = 0
    return
received_command_answer = self._validate_mode_command(mode_id, par_1, par_2)
self.received_mode_command_counter = cmd_cnt
self.received_mode_command = mode_id
self.received_mode_command_answer = received_command_answer
if received_command_answer == 9:
    method = getattr(self, command)
    self.executed_mode_command_counter = cmd_cnt
    self.executed_mode_command = mode_id
    self.executed_mode_command_answer = 2
    method(cmd_cnt, par_1, par_2, stop)""".splitlines()


def bits64(x):
    return struct.unpack('>Q', struct.pack('>d', float(x)))[0]


def _exact_int(where, v):
    if isinstance(v, bool) or not isinstance(v, int):
        raise GenError('%s: expected a Python int, got %r' % (where, v))
    return v


def axis_ctor_args(tree, attr):
    """keyword arguments of `self.<attr> = MasterAxisStatus(...)` in System.__init__"""
    init = _fn(tree, 'System', '__init__')
    for st in ast.walk(init):
        if isinstance(st, ast.Assign) and len(st.targets) == 1 and \
                ast.unparse(st.targets[0]) == 'self.' + attr and isinstance(st.value, ast.Call):
            call = st.value
            if ast.unparse(call.func) != 'MasterAxisStatus' or call.args:
                raise GenError('System.__init__: self.%s is not MasterAxisStatus(keyword args)' % attr)
            try:
                return {k.arg: ast.literal_eval(k.value) for k in call.keywords}
            except Exception:
                raise GenError('System.__init__: non-literal constructor argument of self.%s' % attr)
    raise GenError('System.__init__: self.%s not constructed' % attr)


# ---------------------------------------------------------------------------
# MasterAxisStatus._reset (mode command 15) and the error-flag setters of SimpleAxisStatus

_EXPECT_STRICT = _expect

ERR_WORD_SHAPE = ["return utils.bytes_to_binary(self.status[10:14])[::-1]"]
ERR_GETTER_SHAPE = ["return bool(int(self.errors[@k@]))"]
ERR_SETTER_SHAPE = """if not isinstance(value, bool):
    raise ValueError('Provide a boolean!')
errors = list(self.errors)
errors[@k@] = str(int(value))
self.status[10:14] = utils.binary_to_bytes(''.join(errors)[::-1])""".splitlines()
RESET_TAIL = ['self.executed_mode_command_counter = counter',
              'self.executed_mode_command = @mode@',
              'self.executed_mode_command_answer = @answer@']

# the protocol's error word (used only by the Python oracles when the source shapes are not recognised)
DEFAULT_ERROR_FLAGS = [
    ('Error_Active', 0), ('System_fault', 1), ('Em_Stop', 2), ('Em_Limit_Dn_Act', 3), ('Em_Limit_Up_Act', 4),
    ('Brake_Error', 6), ('Power_Error', 7), ('Servo_Error', 8), ('Servo_Timeout', 9), ('v_Motor_Exceed', 11),
    ('Servo_Overload', 12), ('Pos_Enc_Error', 13), ('Pos_Enc_Step', 14), ('p_Range_Exceed', 15),
    ('p_Dev_Exceed', 16), ('Servo_DC_Error', 17), ('Override_Error', 18), ('Cmd_Timeout', 19),
    ('Rate_Loop_Err', 22), ('v_Dev_Exceed', 23), ('Stow_Error', 24), ('Stow_Timeout', 25), ('Extern_Error', 26),
    ('Safety_Dev_Error', 27), ('Com_Error', 29), ('Pre_Limit_Err', 30), ('Fin_Limit_Err', 31)]


def _props(tree, cls):
    """name -> (getter FunctionDef, setter FunctionDef or None) of the properties of class `cls`"""
    out = {}
    for node in tree.body:
        if isinstance(node, ast.ClassDef) and node.name == cls:
            for f in node.body:
                if not isinstance(f, ast.FunctionDef):
                    continue
                decs = [ast.unparse(d) for d in f.decorator_list]
                if decs == ['property']:
                    if f.name in out:
                        raise GenError('%s.%s: property defined twice' % (cls, f.name))
                    out[f.name] = [f, None]
                elif decs == [f.name + '.setter']:
                    if f.name not in out or out[f.name][1] is not None:
                        raise GenError('%s.%s: setter without property / defined twice' % (cls, f.name))
                    out[f.name][1] = f
            return out
    raise GenError('class %s not found' % cls)


def _class_names(tree, cls):
    for node in tree.body:
        if isinstance(node, ast.ClassDef) and node.name == cls:
            names = set()
            for f in node.body:
                if isinstance(f, (ast.FunctionDef, ast.ClassDef)):
                    names.add(f.name)
                elif isinstance(f, ast.Assign):
                    names.update(ast.unparse(t) for t in f.targets)
            return names
    raise GenError('class %s not found' % cls)


def reset_tables(t_axis):
    """-> dict(error_flags=[(name, bit)] of every flag of the error word, reset_flags=[(name, bit)]
    the flags `_reset` clears, in source order, reset_mode, reset_answer).  Fails closed: every
    statement of `_reset` must be `self.<error flag> = False` or one of the three closing
    assignments; every error-flag setter must have the one known shape."""
    props = _props(t_axis, 'SimpleAxisStatus')
    if 'errors' not in props or props['errors'][1] is not None:
        raise GenError('SimpleAxisStatus.errors: not a read-only property')
    _EXPECT_STRICT('SimpleAxisStatus.errors', _body_lines(props['errors'][0]), ERR_WORD_SHAPE)
    flags = {}
    for name, (g, st) in props.items():
        src = '\n'.join(_body_lines(g)) + '\n' + ('\n'.join(_body_lines(st)) if st is not None else '')
        if 'errors' not in src and 'status[10:14]' not in src:
            continue
        if name == 'errors':
            continue
        if st is None:
            raise GenError('SimpleAxisStatus.%s reads the error word but has no setter' % name)
        k1 = _EXPECT_STRICT('SimpleAxisStatus.%s (getter)' % name, _body_lines(g), ERR_GETTER_SHAPE)['k']
        k2 = _EXPECT_STRICT('SimpleAxisStatus.%s (setter)' % name, _body_lines(st), ERR_SETTER_SHAPE)['k']
        if k1 != k2 or not k1.isdigit() or not 0 <= int(k1) < 32:
            raise GenError('SimpleAxisStatus.%s: getter/setter bit %s/%s' % (name, k1, k2))
        flags[name] = int(k1)
    if len(set(flags.values())) != len(flags):
        raise GenError('two error flags share a bit: %r' % (flags,))
    # nothing else may write the error word
    whole = ast.unparse(t_axis)
    if whole.count('self.status[10:14] = ') != len(flags):
        raise GenError('the error word status[10:14] is written outside the %d flag setters' % len(flags))
    shadow = _class_names(t_axis, 'MasterAxisStatus') & (set(flags) | {'errors', 'status'})
    if shadow:
        raise GenError('MasterAxisStatus overrides %r' % (sorted(shadow),))
    fn = _fn(t_axis, 'MasterAxisStatus', '_reset')
    if ast.unparse(fn.args) != 'self, counter, *_' or fn.decorator_list:
        raise GenError('MasterAxisStatus._reset: unexpected signature (%s)' % ast.unparse(fn.args))
    lines = _body_lines(fn)
    if len(lines) < 3:
        raise GenError('MasterAxisStatus._reset: body too short')
    v = _EXPECT_STRICT('MasterAxisStatus._reset (closing assignments)', lines[-3:], RESET_TAIL)
    cleared = []
    for ln in lines[:-3]:
        m = re.fullmatch(r'self\.(\w+) = False', ln)
        if not m:
            raise GenError('MasterAxisStatus._reset: unknown statement shape: %s' % ln)
        name = m.group(1)
        if name not in flags:
            raise GenError('MasterAxisStatus._reset assigns %s, which is not a flag of the error word' % name)
        if name in [n for n, _ in cleared]:
            raise GenError('MasterAxisStatus._reset clears %s twice' % name)
        cleared.append((name, flags[name]))
    return dict(error_flags=sorted(flags.items(), key=lambda p: p[1]), reset_flags=cleared,
                reset_mode=int(v['mode']), reset_answer=int(v['answer']))


# ---------------------------------------------------------------------------
# MasterAxisStatus.update_status (limit / rate warning bits) and SlaveAxisStatus.update_status

WARN_SETTER_SHAPE = """if not isinstance(value, bool):
    raise ValueError('Provide a boolean!')
warnings = list(self.warnings)
warnings[@k@] = str(int(value))
self.status[6:10] = utils.binary_to_bytes(''.join(warnings)[::-1])""".splitlines()
WARN_WORD_SHAPE = ["return utils.bytes_to_binary(self.status[6:10])[::-1]"]

UPDATE_STATUS_SHAPE = """if self.stow_pos:
    self.stowPosOk = float(self.p_Ist) / 1000000 in self.stow_pos
if self.p_Ist == int(round(self.min_pos * 1000000)):
    self.Pre_Limit_Dn = True
    self.Fin_Limit_Dn = False
elif self.p_Ist < int(round(self.min_pos * 1000000)):
    self.Pre_Limit_Dn = True
    self.Fin_Limit_Dn = True
else:
    self.Pre_Limit_Dn = False
    self.Fin_Limit_Dn = False
if self.p_Ist == int(round(self.max_pos * 1000000)):
    self.Pre_Limit_Up = True
    self.Fin_Limit_Up = False
elif self.p_Ist > int(round(self.max_pos * 1000000)):
    self.Pre_Limit_Up = True
    self.Fin_Limit_Up = True
else:
    self.Pre_Limit_Up = False
    self.Fin_Limit_Up = False
if abs(self.v_Ist) > int(round(self.max_velocity * 1000000)):
    self.Rate_Limit = True
else:
    self.Rate_Limit = False""".splitlines()

SLAVE_UPDATE_SHAPE = """if self.master.axis_state == @st_active@:
    brakes_open = []
    brakes_open += [True for __ in range(len(self.motor_status))]
    brakes_open += [False for __ in range(16 - len(self.motor_status))]
    self.brakes_open = brakes_open
else:
    self.brakes_open = [False for __ in range(16)]""".splitlines()

UPDATE_BITS = ['Pre_Limit_Up', 'Pre_Limit_Dn', 'Fin_Limit_Up', 'Fin_Limit_Dn', 'Rate_Limit']
DEFAULT_UPDATE_BITS = dict(Pre_Limit_Up=19, Pre_Limit_Dn=20, Fin_Limit_Up=21, Fin_Limit_Dn=22, Rate_Limit=23)


def status_tables(t_axis, t_init):
    """-> dict(update_bits={name: bit of the warning word}, cw_motors=n)"""
    props = _props(t_axis, 'SimpleAxisStatus')
    if 'warnings' not in props or props['warnings'][1] is not None:
        raise GenError('SimpleAxisStatus.warnings: not a read-only property')
    _EXPECT_STRICT('SimpleAxisStatus.warnings', _body_lines(props['warnings'][0]), WARN_WORD_SHAPE)
    from simulators.acu.axis_status import SimpleAxisStatus
    bits = {}
    for name in UPDATE_BITS:
        if name not in props or props[name][1] is None:
            raise GenError('SimpleAxisStatus.%s: no such settable property' % name)
        k = _EXPECT_STRICT('SimpleAxisStatus.%s (setter)' % name, _body_lines(props[name][1]), WARN_SETTER_SHAPE)['k']
        if not k.isdigit() or not 0 <= int(k) < 32:
            raise GenError('SimpleAxisStatus.%s: bit %s' % (name, k))
        # the getter reads the bit the setter writes (checked on a scratch object)
        probe = SimpleAxisStatus()
        setattr(probe, name, True)
        if getattr(probe, name) is not True or probe.warnings != '0' * int(k) + '1' + '0' * (31 - int(k)):
            raise GenError('SimpleAxisStatus.%s: getter and setter disagree' % name)
        bits[name] = int(k)
    if len(set(bits.values())) != len(bits):
        raise GenError('two warning flags share a bit: %r' % (bits,))
    _EXPECT_STRICT('MasterAxisStatus.update_status', _body_lines(_fn(t_axis, 'MasterAxisStatus', 'update_status')),
                   UPDATE_STATUS_SHAPE)
    v = _EXPECT_STRICT('SlaveAxisStatus.update_status', _body_lines(_fn(t_axis, 'SlaveAxisStatus', 'update_status')),
                       SLAVE_UPDATE_SHAPE)
    shadow = _class_names(t_axis, 'MasterAxisStatus') & (set(UPDATE_BITS) | {'warnings'})
    if shadow:
        raise GenError('MasterAxisStatus overrides %r' % (sorted(shadow),))
    init = _fn(t_init, 'System', '__init__')
    cw = [ast.unparse(st.value) for st in ast.walk(init)
          if isinstance(st, ast.Assign) and len(st.targets) == 1 and ast.unparse(st.targets[0]) == 'self.CW']
    m = re.fullmatch(r'SlaveAxisStatus\(n_motors=(\d+), master=self\.AZ\)', cw[0]) if len(cw) == 1 else None
    if not m or not 0 < int(m.group(1)) <= 16:
        raise GenError('System.__init__: unexpected construction of self.CW: %r' % (cw,))
    return dict(update_bits=bits, cw_motors=int(m.group(1)), cw_active_state=int(v['st_active']))


DEFAULT_LITERALS = dict(n_flag=4, at_len=8, at_cnt=12, at_num=16, min_len=20, cmd_len=26, pt_head=42,
                        pt_entry=20, st_inactive=0, st_active=3, slew_limit=1, stow_rate_factor=0.5)


def tables(repo, strict=True):
    """-> dict of evaluated constants.  strict=False (used only by the Python oracles, which state
    the property and must keep running on a tree whose source shapes are not recognised) skips the
    shape checks and takes the protocol literals from DEFAULT_LITERALS."""
    if not strict:
        global _expect
        saved = _expect
        _expect = lambda where, got, want: {k: str(v) for k, v in DEFAULT_LITERALS.items()}
        try:
            return tables(repo, True)
        finally:
            _expect = saved
    base = os.path.join(repo, 'simulators', 'acu')
    t_init = ast.parse(open(os.path.join(base, '__init__.py')).read())
    t_axis = ast.parse(open(os.path.join(base, 'axis_status.py')).read())
    import simulators.acu as A
    import simulators.acu.acu_utils as AU
    from simulators.acu.axis_status import MasterAxisStatus
    from simulators.acu.pointing_status import PointingStatus
    T = {}
    if A.start_flag != AU.start_flag or A.end_flag != AU.end_flag:
        raise GenError('acu and acu_utils disagree on the start/end flags')
    T['start_flag'] = [ord(c) for c in A.start_flag]
    T['end_flag'] = [ord(c) for c in A.end_flag]
    if len(T['start_flag']) != 4 or len(T['end_flag']) != 4:
        raise GenError('flags are not 4 bytes long')
    T['subsystems'] = dict(A.System.subsystems)
    T['commands'] = dict(A.System.commands)
    if sorted(T['subsystems'].values()) != ['AZ', 'EL', 'PS']:
        raise GenError('unexpected subsystem set %r' % (T['subsystems'],))
    classes = {'AZ': MasterAxisStatus, 'EL': MasterAxisStatus, 'PS': PointingStatus}
    T['handlers'] = sorted((sid, cid) for sid, sname in T['subsystems'].items()
                           for cid, cname in T['commands'].items()
                           if callable(getattr(classes[sname], cname, None)))
    T['mode_commands'] = dict(MasterAxisStatus.mode_commands)

    got = _body_lines(_fn(t_init, 'System', 'parse'))
    try:
        v = _expect('System.parse', got, PARSE_SHAPE)
    except GenError as first:
        try:
            v = _expect('System.parse', got, PARSE_SHAPE_PINNED)
            v['min_len'] = '0'
        except GenError:
            raise first
    for k in ('n_flag', 'at_len', 'at_cnt', 'at_num', 'min_len'):
        T[k] = int(v[k])
    if (T['n_flag'], T['at_len'], T['at_cnt'], T['at_num']) != (4, 8, 12, 16):
        raise GenError('System.parse: header offsets changed: %r' % (v,))
    v = _expect('System._parse_commands', _body_lines(_fn(t_init, 'System', '_parse_commands')),
                PARSE_COMMANDS_SHAPE)
    for k in ('cmd_len', 'pt_head', 'pt_entry'):
        T[k] = int(v[k])
    _expect('System._get_method', _body_lines(_fn(t_init, 'System', '_get_method')), GET_METHOD_SHAPE)
    _expect('MasterAxisStatus._mode_command', _body_lines(_fn(t_axis, 'MasterAxisStatus', '_mode_command')),
            MODE_COMMAND_SHAPE)
    v = _expect('MasterAxisStatus._validate_mode_command',
                _body_lines(_fn(t_axis, 'MasterAxisStatus', '_validate_mode_command')), VALIDATE_SHAPE)
    # _preset_relative: the base of the relative move (p_Soll on the pinned tree; fixes/15a of the
    # kinematics agent makes it p_Ist) -- the model follows whichever the source has
    rel = [ln for ln in _body_lines(_fn(t_axis, 'MasterAxisStatus', '_preset_relative'))
           if ln.startswith('desired_pos = ')]
    if rel == ['desired_pos = self.p_Soll + int(round(angle * 1000000))']:
        T['rel_from_p_Ist'] = False
    elif rel == ['desired_pos = self.p_Ist + int(round(angle * 1000000))']:
        T['rel_from_p_Ist'] = True
    else:
        raise GenError('MasterAxisStatus._preset_relative: unknown source shape %r' % (rel,))
    T['st_inactive'] = int(v['st_inactive'])
    T['st_active'] = int(v['st_active'])
    T['slew_limit'] = int(v['slew_limit'])
    T['stow_rate_factor'] = float(v['stow_rate_factor'])
    try:
        T.update(reset_tables(t_axis))
    except GenError:
        if _expect is _EXPECT_STRICT:
            raise
        T.update(error_flags=list(DEFAULT_ERROR_FLAGS), reset_flags=list(DEFAULT_ERROR_FLAGS),
                 reset_mode=15, reset_answer=1)
    try:
        T.update(status_tables(t_axis, t_init))
    except GenError:
        if _expect is _EXPECT_STRICT:
            raise
        T.update(update_bits=dict(DEFAULT_UPDATE_BITS), cw_motors=1, cw_active_state=3)
    for name in ('AZ', 'EL'):
        kw = axis_ctor_args(t_init, name)
        if set(kw) - {'n_motors', 'max_rates', 'op_range', 'start_pos', 'stow_pos'}:
            raise GenError('unexpected constructor arguments for %s: %r' % (name, kw))
        stow = kw.get('stow_pos') or []
        T[name] = dict(
            n_motors=_exact_int(name + '.n_motors', kw['n_motors']),
            max_velocity=float(kw['max_rates'][0]),
            min_pos=_exact_int(name + '.min_pos', kw['op_range'][0]),
            max_pos=_exact_int(name + '.max_pos', kw['op_range'][1]),
            start_pos=_exact_int(name + '.start_pos', kw['start_pos']),
            stow_pos=[_exact_int(name + '.stow_pos', x) for x in stow])
        c = T[name]
        if not (0 < c['n_motors'] <= 16 and c['min_pos'] < c['max_pos'] and len(c['stow_pos']) <= 16
                and -2000 < c['min_pos'] and c['max_pos'] < 2000):
            raise GenError('%s: constructor arguments outside the modelled domain: %r' % (name, c))
    return T


def coq_text(T):
    def pairs(d):
        return '[' + '; '.join('(%s, %s)' % (zlit(a), zlit(b)) for a, b in d) + ']'

    names = sorted(set(T['mode_commands'].values()))
    L = ['(* GENERATED by gen/acmd_tables.py from simulators/acu -- do not edit *)',
         'From DS Require Import Base.Prelude.',
         '',
         'Definition start_flag : list Z := %s.' % zlist(T['start_flag']),
         'Definition end_flag : list Z := %s.' % zlist(T['end_flag']),
         '(* System.subsystems: id -> 0 AZ | 1 EL | 2 PS *)',
         'Definition subsystems : list (Z * Z) := %s.'
         % pairs(sorted((k, ['AZ', 'EL', 'PS'].index(v)) for k, v in T['subsystems'].items())),
         '(* System.commands: the known command ids *)',
         'Definition command_ids : list Z := %s.' % zlist(sorted(T['commands'])),
         '(* (subsystem id, command id) pairs for which the subsystem object has the handler *)',
         'Definition handlers : list (Z * Z) := %s.' % pairs(T['handlers']),
         '(* MasterAxisStatus.mode_commands: mode id -> handler (one constructor per method name) *)',
         'Inductive mhandler := %s.' % ' | '.join('H' + n for n in names),
         'Definition mode_commands : list (Z * mhandler) := [%s].'
         % '; '.join('(%s, H%s)' % (zlit(k), v) for k, v in sorted(T['mode_commands'].items())),
         'Definition hdr_flag_len : Z := %d.' % T['n_flag'],
         'Definition hdr_at_len : Z := %d.' % T['at_len'],
         'Definition hdr_at_cnt : Z := %d.' % T['at_cnt'],
         'Definition hdr_at_num : Z := %d.' % T['at_num'],
         '(* `self.msg_length < min_msg_length` is rejected at byte 8 (0: the check is absent) *)',
         'Definition min_msg_length : Z := %d.' % T['min_len'],
         'Definition cmd_len : Z := %d.' % T['cmd_len'],
         'Definition pt_head : Z := %d.' % T['pt_head'],
         'Definition pt_entry : Z := %d.' % T['pt_entry'],
         'Definition st_inactive : Z := %d.' % T['st_inactive'],
         'Definition st_active : Z := %d.' % T['st_active'],
         'Definition slew_limit : Z := %d.' % T['slew_limit'],
         '(* _preset_relative adds the angle to p_Ist (true) or to p_Soll (false) *)',
         'Definition rel_from_p_Ist : bool := %s.' % ('true' if T['rel_from_p_Ist'] else 'false'),
         'Definition stow_rate_factor_bits : Z := %d.' % bits64(T['stow_rate_factor']),
         '(* the named flags of the error word status[10:14] (bit i = errors[i]): %s *)'
         % ', '.join('%s %d' % p for p in T['error_flags']),
         'Definition error_flags : list Z := %s.' % zlist([k for _, k in T['error_flags']]),
         '(* the flags MasterAxisStatus._reset assigns False, in source order: %s *)'
         % ', '.join(n for n, _ in T['reset_flags']),
         'Definition reset_clears : list Z := %s.' % zlist([k for _, k in T['reset_flags']]),
         'Definition reset_mode : Z := %d.' % T['reset_mode'],
         'Definition reset_answer : Z := %d.' % T['reset_answer'],
         '(* bits of the warning word status[6:10] written by MasterAxisStatus.update_status *)',
         'Definition bit_Pre_Limit_Up : Z := %d.' % T['update_bits']['Pre_Limit_Up'],
         'Definition bit_Pre_Limit_Dn : Z := %d.' % T['update_bits']['Pre_Limit_Dn'],
         'Definition bit_Fin_Limit_Up : Z := %d.' % T['update_bits']['Fin_Limit_Up'],
         'Definition bit_Fin_Limit_Dn : Z := %d.' % T['update_bits']['Fin_Limit_Dn'],
         'Definition bit_Rate_Limit : Z := %d.' % T['update_bits']['Rate_Limit'],
         '(* self.CW = SlaveAxisStatus(n_motors=.., master=self.AZ); brakes open iff master.axis_state == .. *)',
         'Definition CW_n_motors : Z := %d.' % T['cw_motors'],
         'Definition CW_master_active : Z := %d.' % T['cw_active_state'],
         '']
    for name in ('AZ', 'EL'):
        c = T[name]
        L += ['Definition %s_n_motors : Z := %d.' % (name, c['n_motors']),
              'Definition %s_max_velocity_bits : Z := %d.  (* %r *)' % (name, bits64(c['max_velocity']),
                                                                      c['max_velocity']),
              'Definition %s_min_pos : Z := %s.' % (name, zlit(c['min_pos'])),
              'Definition %s_max_pos : Z := %s.' % (name, zlit(c['max_pos'])),
              'Definition %s_start_pos : Z := %s.' % (name, zlit(c['start_pos'])),
              'Definition %s_stow_pos : list Z := %s.' % (name, zlist(c['stow_pos'])),
              '']
    return '\n'.join(L) + '\n'


def generate(ctx=None):
    from vlib import core
    T = tables(core.REPO)
    core.write_if_changed(os.path.join(core.COQ, 'Gen', 'AcmdTables.v'), coq_text(T))
    return T
