"""Bck — fail-closed translator for the backend simulators (C19 and the backend parts of C02-C05, C07).

Writes coq/Gen/BckTables.v from the current source tree:

  * grammar.py: the evaluated regex source strings and protocol constants (import);
  * genericbackend.py / mistral.py / sardara.py: the `commands` dictionaries, PROTOCOL_VERSION,
    setup_time / sweep_time, max_sections / max_bandwidth, the configuration-name patterns (import,
    instances built with a stub Timer so nothing is started);
  * every `Timer(...)` creation site and every `.cancel()` / `.join()` call of the three modules with the
    function it is in and the attribute it goes through (Python `ast`) — the ledger sites of C07;
  * backend/__init__.py: the (port, system_type) server table.

The hand-written recogniser and handlers of coq/Model/BckModel.v were written for the values in
coq/Model/BckGolden.v; Proofs/BckProofs.v carries the obligations `BckTables.x = BckGolden.x`.
Anything this translator does not recognise raises GenError (a broken tie).
"""
import ast
import importlib
import os

from vlib.core import GenError, zlit, zlist

FILES = ['grammar.py', 'genericbackend.py', 'mistral.py', 'sardara.py', '__init__.py']


def zstr(s):
    if not isinstance(s, str):
        raise GenError('expected a str, got %r' % (s,))
    return zlist([ord(c) for c in s])


def zint(x, what):
    if isinstance(x, bool) or not isinstance(x, int):
        raise GenError('%s: expected an int, got %r' % (what, x))
    return zlit(x)


def need(obj, name, where):
    if not hasattr(obj, name):
        raise GenError('%s has no attribute %s' % (where, name))
    return getattr(obj, name)


def attr_chain(node):
    """self._startID.cancel -> 'self._startID' ; anything else -> unparsed text"""
    return ast.unparse(node)


def sites(path, fname):
    """(creations, cancels, joins): lists of (file, function, attribute text)"""
    try:
        tree = ast.parse(open(path).read())
    except (OSError, SyntaxError) as ex:
        raise GenError('%s: %s' % (path, ex))
    creations, cancels, joins = [], [], []

    def visit(fn):
        for node in ast.walk(fn):
            if isinstance(node, ast.Call):
                f = node.func
                if isinstance(f, ast.Name) and f.id in ('Timer', 'Thread'):
                    creations.append((node, fn.name, f.id))
                elif isinstance(f, ast.Attribute) and f.attr in ('Timer', 'Thread'):
                    creations.append((node, fn.name, f.attr))
                elif isinstance(f, ast.Attribute) and f.attr == 'cancel':
                    cancels.append((fname, fn.name, attr_chain(f.value)))
                elif isinstance(f, ast.Attribute) and f.attr == 'join' and not (
                        isinstance(f.value, ast.Constant)):
                    joins.append((fname, fn.name, attr_chain(f.value)))

    fns = [n for n in ast.walk(tree) if isinstance(n, (ast.FunctionDef, ast.AsyncFunctionDef))]
    seen_calls = set()
    out_creations = []
    for fn in fns:
        before = len(creations)
        visit(fn)
        for node, fnname, kind in creations[before:]:
            if id(node) in seen_calls:
                continue
            seen_calls.add(id(node))
            # the creation must be the right-hand side of `self.<attr> = Timer(interval, self.<callback>)`
            target = None
            for st in ast.walk(fn):
                if isinstance(st, ast.Assign) and st.value is node and len(st.targets) == 1:
                    target = ast.unparse(st.targets[0])
            if target is None:
                raise GenError('%s:%s: %s(...) is not assigned to an attribute: %s'
                               % (fname, fnname, kind, ast.unparse(node)))
            if len(node.args) != 2 or node.keywords:
                raise GenError('%s:%s: unknown %s(...) shape: %s' % (fname, fnname, kind, ast.unparse(node)))
            out_creations.append((fname, fnname, '%s = %s(%s, %s)'
                                  % (target, kind, ast.unparse(node.args[0]), ast.unparse(node.args[1]))))
    # module-level creations (outside any function) are not expected
    for node in ast.walk(tree):
        if isinstance(node, ast.Call) and isinstance(node.func, ast.Name) and node.func.id in ('Timer', 'Thread') \
                and id(node) not in seen_calls:
            raise GenError('%s: Timer/Thread created outside a method: %s' % (fname, ast.unparse(node)))

    def dedup(l):
        out = []
        for x in l:
            if x not in out:
                out.append(x)
        return out
    return out_creations, dedup(cancels), dedup(joins)


class _StubTimer:
    def __init__(self, *a, **k):
        pass

    def start(self):
        pass

    def cancel(self):
        pass

    def join(self, *a):
        pass


def tables_text(repo):
    d = os.path.join(repo, 'simulators', 'backend')
    for f in FILES:
        if not os.path.exists(os.path.join(d, f)):
            raise GenError('missing source file simulators/backend/%s' % f)
    try:
        grammar = importlib.import_module('simulators.backend.grammar')
        gb = importlib.import_module('simulators.backend.genericbackend')
        mistral = importlib.import_module('simulators.backend.mistral')
        sardara = importlib.import_module('simulators.backend.sardara')
        backend = importlib.import_module('simulators.backend')
        utils = importlib.import_module('simulators.utils')
    except Exception as ex:
        raise GenError('cannot import the backend modules: %s: %s' % (type(ex).__name__, ex))
    for m in (grammar, gb, mistral, sardara, backend):
        if not (m.__file__ or '').startswith(repo + '/'):
            raise GenError('%s was not imported from %s' % (m.__name__, repo))
    out = ['(* GENERATED by gen/bck_tables.py from simulators/backend -- do not edit *)',
           'From DS Require Import Base.Prelude.', '']

    def d_str(name, val):
        out.append('Definition %s : list Z := %s.' % (name, zstr(val)))

    def d_int(name, val):
        out.append('Definition %s : Z := %s.' % (name, zint(val, name)))

    for n in ('type_re', 'name_re', 'code_re', 'arguments_re', 'linefeed_re', 'request_re', 'reply_re'):
        d_str(n, need(grammar, n, 'grammar'))
        pat = need(grammar, n.replace('_re', '_pattern'), 'grammar')
        if getattr(pat, 'pattern', None) != getattr(grammar, n) or getattr(pat, 'flags', None) != 32:
            raise GenError('grammar.%s is not re.compile(%s) with default flags'
                           % (n.replace('_re', '_pattern'), n))
    for n in ('REQUEST', 'REPLY', 'TAIL', 'SEPARATOR', 'OK', 'FAIL', 'INVALID'):
        d_str('k_' + n, need(grammar, n, 'grammar'))

    def d_cmds(name, table):
        if not isinstance(table, dict):
            raise GenError('%s: commands is not a dict' % name)
        rows = ['(%s, %s)' % (zstr(k), zstr(v)) for k, v in table.items()]
        out.append('Definition %s : list (list Z * list Z) := [\n  %s ].' % (name, ';\n  '.join(rows)))

    G = need(gb, 'GenericBackendSystem', 'genericbackend')
    M = need(mistral, 'System', 'mistral')
    S = need(sardara, 'System', 'sardara')
    d_cmds('commands_generic', need(G, 'commands', 'GenericBackendSystem'))
    d_cmds('commands_sardara', need(S, 'commands', 'sardara.System'))
    d_cmds('commands_mistral', need(M, 'commands', 'mistral.System'))
    d_str('protocol_version', need(gb, 'PROTOCOL_VERSION', 'genericbackend'))
    d_int('setup_time', need(M, 'setup_time', 'mistral.System'))
    d_int('sweep_time', need(M, 'sweep_time', 'mistral.System'))
    d_int('acs_to_unix_time', need(utils, 'ACS_TO_UNIX_TIME', 'utils'))
    if gb.ACS_TO_UNIX_TIME != utils.ACS_TO_UNIX_TIME:
        raise GenError('genericbackend.ACS_TO_UNIX_TIME is not utils.ACS_TO_UNIX_TIME')

    # instances, with a stub Timer so that nothing can be started
    saved = (getattr(gb, 'Timer', None), getattr(mistral, 'Timer', None))
    gb.Timer = mistral.Timer = _StubTimer
    try:
        inst = dict(generic=G(), sardara=S(), mistral=M())
    except Exception as ex:
        raise GenError('cannot construct the backend systems: %s: %s' % (type(ex).__name__, ex))
    finally:
        gb.Timer, mistral.Timer = saved
    for k, s in inst.items():
        d_str('valid_conf_%s' % k, need(need(s, '_valid_conf_re', k), 'pattern', k + '._valid_conf_re'))
        if s._valid_conf_re.flags != 32:
            raise GenError('%s._valid_conf_re has non-default flags' % k)
        d_int('max_sections_%s' % k, need(s, 'max_sections', k))
        d_int('max_bandwidth_%s' % k, need(s, 'max_bandwidth', k))
        d_str('initial_configuration_%s' % k, need(s, 'configuration_string', k))
        d_str('initial_filename_%s' % k, need(s, '_filename', k))
        d_int('initial_integration_%s' % k, need(s, 'integration', k))
        d_str('status_string_%s' % k, need(s, 'status_string', k))

    servers = need(backend, 'servers', 'backend')
    rows = []
    try:
        for (addr, _args, _cls, kw) in servers:
            rows.append('(%s, %s)' % (zint(addr[1], 'port'), zstr(kw['system_type'])))
    except GenError:
        raise
    except Exception as ex:
        raise GenError('backend.servers has an unknown shape: %s' % ex)
    out.append('Definition servers : list (Z * list Z) := [%s].' % '; '.join(rows))

    cre, can, joi = [], [], []
    for f in ('genericbackend.py', 'mistral.py', 'sardara.py', '__init__.py', 'grammar.py'):
        c, k, j = sites(os.path.join(d, f), f)
        cre += c
        can += k
        joi += j

    def d_sites(name, rows):
        body = ';\n  '.join('(%s, %s, %s)' % (zstr(a), zstr(b), zstr(c)) for a, b, c in rows)
        out.append('Definition %s : list (list Z * list Z * list Z) := [\n  %s ].' % (name, body))
    d_sites('timer_creation_sites', cre)
    d_sites('timer_cancel_sites', can)
    d_sites('timer_join_sites', joi)
    return '\n'.join(out) + '\n'
