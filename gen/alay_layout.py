"""C16 — fail-closed translator of the ACU status layout (tag Alay).

Reads, with the Python `ast`, the five status classes of simulators/acu
(general_status, axis_status [SimpleAxisStatus], motor_status, pointing_status,
facility_status) and `System.__init__` / `System._update_status` /
`System._update_loop` of simulators/acu/__init__.py and recovers

  * per class: the block size and, for every property, a field record
    (name, offset, length, kind, domain enforced by the setter);
  * the frame: size, start/end flags, the value written in the length field,
    where the millisecond counter and the payload go, the block order, the
    constructor arguments of the axes (motor counts, position limits, maximum
    rates, stow positions), the frame offsets at which `_update_loop` reads the
    clock.

Every getter/setter must match one of the known source shapes *exactly* (after
`ast.unparse`, which normalises white space, quotes and comments); anything else
raises GenError (a broken tie).  The same holds for stray writes to a `.status`
array outside a property setter.

`layout_text(repo)` returns the text of coq/Gen/AlayLayout.v; `init_blocks(repo)`
constructs a real System under a frozen clock and returns the raw initial
blocks (evaluated constants).
"""
import ast
import os
import re

from vlib.core import GenError

STATUS_MODULES = [
    # (module file, class, Coq table name)
    ('general_status.py', 'GeneralStatus', 'gs'),
    ('axis_status.py', 'SimpleAxisStatus', 'axis'),
    ('motor_status.py', 'MotorStatus', 'motor'),
    ('pointing_status.py', 'PointingStatus', 'ps'),
    ('facility_status.py', 'FacilityStatus', 'fs'),
]

RAISE = r"raise ValueError\((?:'[^']*'|\"[^\"]*\")\)"
INT = r'(-?\d+)'


def fail(where, what, text=''):
    raise GenError('%s: %s%s' % (where, what, ('\n' + text) if text else ''))


def body_text(fn):
    """unparsed body of a function, docstring removed"""
    body = list(fn.body)
    if body and isinstance(body[0], ast.Expr) and isinstance(body[0].value, ast.Constant) \
            and isinstance(body[0].value.value, str):
        body = body[1:]
    return '\n'.join(ast.unparse(s) for s in body)


# ---------------------------------------------------------------------------
# getter shapes -> dict(shape=..., ...)

GETTERS = [
    ('bool', r'return bool\(utils\.bytes_to_uint\(self\.status\[(?P<o>\d+)\]\)\)'),
    ('uint1', r'return utils\.bytes_to_uint\(self\.status\[(?P<o>\d+)\]\)'),
    ('uint', r'return utils\.bytes_to_uint\(self\.status\[(?P<a>\d+):(?P<b>\d+)\]\)'),
    ('int', r'return utils\.bytes_to_int\(self\.status\[(?P<a>\d+):(?P<b>\d+)\]\)'),
    ('real', r'return utils\.bytes_to_real\(self\.status\[(?P<a>\d+):(?P<b>\d+)\], precision=(?P<p>[12])\)'),
    ('raw', r'return self\.status\[(?P<a>\d+):(?P<b>\d+)\]'),
    ('view_lsb', r'return utils\.bytes_to_binary\(self\.status\[(?P<a>\d+):(?P<b>\d+)\]\)\[::-1\]'),
    ('view_msb', r'return utils\.bytes_to_binary\(self\.status\[(?P<a>\d+):(?P<b>\d+)\]\[::-1\]\)'),
    ('bit', r'return bool\(int\(self\.(?P<view>\w+)\[(?P<i>\d+)\]\)\)'),
    ('bit', r'return bool\(int\(str\(self\.(?P<view>\w+)\)\[(?P<i>\d+)\]\)\)'),
    ('bit', r'retval = bool\(int\(self\.(?P<view>\w+)\[(?P<i>\d+)\]\)\)\nreturn retval'),
    ('bits', r'(?P<acc>\w+) = \[\]\n'
             r'for (?P<v>\w+) in utils\.bytes_to_binary\(self\.status\[(?P<a>\d+):(?P<b>\d+)\]\)\[::-1\]:\n'
             r'    (?P=acc)\.append\(bool\(int\((?P=v)\)\)\)\n'
             r'return (?P=acc)'),
    ('bits', r'(?P<acc>\w+) = \[\]\n'
             r'(?P<tmp>\w+) = utils\.bytes_to_binary\(self\.status\[(?P<a>\d+):(?P<b>\d+)\]\)\[::-1\]\n'
             r'for (?P<v>\w+) in (?P=tmp):\n'
             r'    (?P=acc)\.append\(bool\(int\((?P=v)\)\)\)\n'
             r'return (?P=acc)'),
    ('version', r'return \(utils\.bytes_to_uint\(self\.status\[(?P<hi>\d+)\]\), '
                r'utils\.bytes_to_uint\(self\.status\[(?P<lo>\d+)\]\)\)'),
    ('subuint', r'return utils\.bytes_to_uint\(self\.(?P<view>\w+)\[(?P<a>\d+):(?P<b>\d+)\]\)'),
]

# domain tests that may follow `not isinstance(value, int)`
DOMS = [
    ('range', r' or value not in range\((?P<hi>\d+)\)'),
    ('range2', r' or value not in range\((?P<lo>\d+), (?P<hi>\d+)\)'),
    ('list', r' or value not in \[(?P<lst>\d+(?:, \d+)*)\]'),
    ('eq', r' or value != (?P<k>\d+)'),
    ('ge', r' or value < (?P<k>\d+)'),
    ('any', r''),
]

BITS_CHECK = (r'try:\n'
              r'    if not isinstance\(value, \(list, tuple\)\) or len\(value\) != (?P<n>\d+):\n'
              r'        raise ValueError\n'
              r'    for (?P<cv>\w+) in value:\n'
              r'        if not isinstance\((?P=cv), bool\):\n'
              r'            raise ValueError\n'
              r'except ValueError as ex:\n'
              r"    raise ValueError\((?:'[^']*'|\"[^\"]*\")\) from ex\n")

SETTERS = [
    ('bool', r'if not isinstance\(value, bool\):\n    ' + RAISE + r'\nself\.status\[(?P<o>\d+)\] = value'),
    ('uint1', r'if not isinstance\(value, int\)(?P<dom>.*):\n    ' + RAISE +
              r'\nself\.status\[(?P<o>\d+)\] = utils\.uint_to_bytes\(value, n_bytes=(?P<n>\d+)\)'),
    ('uint', r'if not isinstance\(value, int\)(?P<dom>.*):\n    ' + RAISE +
             r'\nself\.status\[(?P<a>\d+):(?P<b>\d+)\] = utils\.uint_to_bytes\(value, n_bytes=(?P<n>\d+)\)'),
    ('uint', r'accepted = \[(?P<acc>\d+(?:, \d+)*)\]\n'
             r'if not isinstance\(value, int\) or value not in accepted:\n    ' + RAISE +
             r'\nself\.status\[(?P<a>\d+):(?P<b>\d+)\] = utils\.uint_to_bytes\(value, n_bytes=(?P<n>\d+)\)'),
    ('int', r'if not isinstance\(value, int\):\n    ' + RAISE +
            r'\nself\.status\[(?P<a>\d+):(?P<b>\d+)\] = utils\.int_to_bytes\(value, n_bytes=(?P<n>\d+)\)'),
    ('int_clamped', r'if not isinstance\(value, int\):\n    ' + RAISE +
                    r'\nvalue = min\(value, int\(round\(self\.max_pos \* 1000000\)\) \+ 1\)'
                    r'\nvalue = max\(value, int\(round\(self\.min_pos \* 1000000\)\) - 1\)'
                    r'\nself\.status\[(?P<a>\d+):(?P<b>\d+)\] = utils\.int_to_bytes\(value, n_bytes=(?P<n>\d+)\)'),
    ('real', r'if not isinstance\(value, \(float, int\)\):\n    ' + RAISE +
             r'\nself\.status\[(?P<a>\d+):(?P<b>\d+)\] = utils\.real_to_bytes\(value, precision=(?P<p>[12])\)'),
    ('bit', r'if not isinstance\(value, bool\):\n    ' + RAISE +
            r'\n(?P<loc>\w+) = list\(self\.(?P<view>\w+)\)'
            r'\n(?P=loc)\[(?P<i>\d+)\] = str\(int\(value\)\)'
            r"\nself\.status\[(?P<a>\d+):(?P<b>\d+)\] = utils\.binary_to_bytes\(''\.join\((?P=loc)\)\[::-1\]\)"),
    ('bits', BITS_CHECK +
             r"(?P<acc>\w+) = ''\n"
             r'for (?P<v>\w+) in value:\n'
             r'    (?P=acc) \+= str\(int\((?P=v)\)\)\n'
             r'self\.status\[(?P<a>\d+):(?P<b>\d+)\] = utils\.binary_to_bytes\((?P=acc)\[::-1\]\)'),
    ('bits_hmi', BITS_CHECK + r'(?P<rest>(?:.|\n)*)'),
    ('version', r'if not isinstance\(value, tuple\):\n    ' + RAISE +
                r'\nmajor, minor = value'
                r'\nself\.status\[(?P<a>\d+):(?P<b>\d+)\] = utils\.binary_to_bytes\('
                r'utils\.int_to_twos\(major, 1\) \+ utils\.int_to_twos\(minor, 1\)\)'),
    ('subuint', r'if not isinstance\(value, int\):\n    ' + RAISE +
                r'\n(?P<loc>\w+) = list\(self\.(?P<view>\w+)\)'
                r'\n(?P=loc)\[(?P<a>\d+):(?P<b>\d+)\] = utils\.uint_to_bytes\(value, n_bytes=(?P<n>\d+)\)'
                r'\nself\.status\[(?P<pa>\d+):(?P<pb>\d+)\] = bytes\((?P=loc)\)'),
]


def match_first(table, text):
    for name, pat in table:
        m = re.fullmatch(pat, text)
        if m:
            return name, m.groupdict()
    return None, None


def parse_dom(where, txt, n_bytes):
    for name, pat in DOMS:
        m = re.fullmatch(pat, txt)
        if m:
            d = m.groupdict()
            if name == 'range':
                return ('range', 0, int(d['hi']))
            if name == 'range2':
                return ('range', int(d['lo']), int(d['hi']))
            if name == 'list':
                return ('list', [int(x) for x in d['lst'].split(', ')])
            if name == 'eq':
                return ('list', [int(d['k'])])
            if name == 'ge':
                return ('range', int(d['k']), 256 ** n_bytes)
            return ('any',)
    fail(where, 'unknown domain test', txt)


def parse_hmi(where, rest):
    """the status_HMI setter: named ints from value[k], a '0'/'1' string built piece by piece,
    written reversed.  Returns (positions, total bits, a, b): value[k] goes to bit positions[k]."""
    lines = rest.split('\n')
    names = {}
    i = 0
    while i < len(lines):
        m = re.fullmatch(r'(\w+) = int\(value\[(\d+)\]\)', lines[i])
        if not m:
            break
        names[m.group(1)] = int(m.group(2))
        i += 1
    if not names:
        fail(where, 'bit-list setter: no value[k] bindings', rest)
    bits = []          # per string position: index into value, or None for a constant '0'
    var = None
    first = True
    while i < len(lines) - 1:
        ln = lines[i]
        m = re.fullmatch(r'(\w+) = str\((\w+)\)', ln) if first else None
        if m:
            var = m.group(1)
            if m.group(2) not in names:
                fail(where, 'bit-list setter: unknown name', ln)
            bits.append(names[m.group(2)])
            first = False
            i += 1
            continue
        m = re.fullmatch(r'(\w+) \+= str\((\w+)\)', ln)
        if m and m.group(1) == var and m.group(2) in names:
            bits.append(names[m.group(2)])
            i += 1
            continue
        m = re.fullmatch(r"(\w+) \+= '0'", ln)
        if m and m.group(1) == var:
            bits.append(None)
            i += 1
            continue
        m = re.fullmatch(r"(\w+) \+= '0' \* (\d+)", ln)
        if m and m.group(1) == var:
            bits += [None] * int(m.group(2))
            i += 1
            continue
        fail(where, 'bit-list setter: unknown statement', ln)
    m = re.fullmatch(r'self\.status\[(\d+):(\d+)\] = utils\.binary_to_bytes\((\w+)\[::-1\]\)', lines[-1])
    if not m or m.group(3) != var or var is None:
        fail(where, 'bit-list setter: unknown final write', lines[-1])
    used = [b for b in bits if b is not None]
    if sorted(used) != list(range(len(names))) or len(used) != len(names):
        fail(where, 'bit-list setter: value indices are not a permutation', rest)
    pos = [None] * len(names)
    for p, k in enumerate(bits):
        if k is not None:
            pos[k] = p
    return pos, len(bits), int(m.group(1)), int(m.group(2))


class Field:
    def __init__(self, name, off, length, kind):
        self.name, self.off, self.len, self.kind = name, off, length, kind

    def coq(self):
        return '{| fname := "%s"; foff := %d; flen := %d; fkind := %s |}' % (
            self.name, self.off, self.len, coq_kind(self.kind))


def zl(xs):
    return '[' + '; '.join(str(x) if x >= 0 else '(%d)' % x for x in xs) + ']'


def nl(xs):
    return '[' + '; '.join('%d%%nat' % x for x in xs) + ']'


def coq_dom(d):
    if d[0] == 'any':
        return 'DAny'
    if d[0] == 'range':
        return '(DRange %d %d)' % (d[1], d[2])
    if d[0] == 'list':
        return '(DList %s)' % zl(d[1])
    raise AssertionError(d)


def coq_kind(k):
    t = k[0]
    if t == 'bool':
        return 'KBool'
    if t == 'bit':
        return '(KBit %d %d %d %s)' % (k[1], k[2], k[3], 'LsbFirst' if k[4] == 'lsb' else 'MsbPerByte')
    if t == 'uint':
        return '(KUint %s)' % coq_dom(k[1])
    if t == 'int':
        return '(KInt %s)' % ('true' if k[1] else 'false')
    if t == 'real64':
        return 'KReal64'
    if t == 'real32':
        return 'KReal32'
    if t == 'bits':
        return '(KBits %d %s)' % (k[1], nl(k[2]))
    if t == 'version':
        return 'KVersion'
    if t == 'view':
        return 'KView'
    raise AssertionError(k)


def class_fields(path, cls_name):
    """-> (size, [Field], init_names) for one status class"""
    src = open(path).read()
    tree = ast.parse(src)
    cls = [n for n in tree.body if isinstance(n, ast.ClassDef) and n.name == cls_name]
    if len(cls) != 1:
        fail(path, 'class %s not found' % cls_name)
    cls = cls[0]
    where0 = '%s:%s' % (os.path.basename(path), cls_name)
    getters, setters, order = {}, {}, []
    init = None
    for fn in cls.body:
        if not isinstance(fn, ast.FunctionDef):
            if isinstance(fn, ast.Expr) and isinstance(fn.value, ast.Constant):
                continue       # class docstring
            if isinstance(fn, ast.Assign):
                continue       # class constants (mode_commands ...) hold no layout
            fail(where0, 'unexpected class-level statement', ast.unparse(fn))
        decos = [ast.unparse(d) for d in fn.decorator_list]
        if decos == ['property']:
            if fn.name in getters:
                fail(where0, 'duplicate getter ' + fn.name)
            getters[fn.name] = fn
            order.append(fn.name)
        elif len(decos) == 1 and decos[0] == fn.name + '.setter':
            if fn.name in setters or fn.name not in getters:
                fail(where0, 'setter without/duplicate getter ' + fn.name)
            if [a.arg for a in fn.args.args] != ['self', 'value']:
                fail(where0, 'setter arguments of ' + fn.name)
            setters[fn.name] = fn
        elif decos and decos != ['staticmethod']:
            fail(where0, 'unknown decorator on ' + fn.name, str(decos))
        elif fn.name == '__init__':
            init = fn
    if init is None:
        fail(where0, 'no __init__')
    # block size
    size = None
    for st in ast.walk(init):
        if isinstance(st, ast.Assign) and ast.unparse(st.targets[0]) == 'self.status':
            m = re.fullmatch(r'Array\(c_char, (\d+)\)', ast.unparse(st.value))
            if not m or size is not None:
                fail(where0, 'unknown status array creation', ast.unparse(st))
            size = int(m.group(1))
    if size is None:
        fail(where0, 'no status array')
    # pass 1: getters
    ginfo = {}
    for name in order:
        shape, d = match_first(GETTERS, body_text(getters[name]))
        if shape is None:
            fail('%s.%s' % (where0, name), 'unknown getter shape', body_text(getters[name]))
        ginfo[name] = (shape, d)
    views = {}
    for name, (shape, d) in ginfo.items():
        if shape in ('view_lsb', 'view_msb', 'raw'):
            if name in setters:
                fail('%s.%s' % (where0, name), 'a view must not have a setter')
            views[name] = (shape, int(d['a']), int(d['b']))
    fields = []
    for name in order:
        shape, d = ginfo[name]
        where = '%s.%s' % (where0, name)
        if name in views:
            _, a, b = views[name]
            fields.append(Field(name, a, b - a, ('view',)))
            continue
        if name not in setters:
            fail(where, 'property without setter is not a known view')
        stext = body_text(setters[name])
        sshape, s = match_first(SETTERS, stext)
        if sshape is None:
            fail(where, 'unknown setter shape', stext)

        def same(*pairs):
            for x, y in pairs:
                if int(x) != int(y):
                    fail(where, 'getter and setter disagree (%s vs %s)' % (x, y), stext)

        if shape == 'bool' and sshape == 'bool':
            same((d['o'], s['o']))
            fields.append(Field(name, int(d['o']), 1, ('bool',)))
        elif shape == 'uint1' and sshape == 'uint1':
            same((d['o'], s['o']), (s['n'], 1))
            fields.append(Field(name, int(d['o']), 1, ('uint', parse_dom(where, s['dom'], 1))))
        elif shape == 'uint' and sshape == 'uint':
            a, b = int(d['a']), int(d['b'])
            same((a, s['a']), (b, s['b']), (s['n'], b - a))
            if s.get('acc') is not None:
                dom = ('list', [int(x) for x in s['acc'].split(', ')])
            else:
                dom = parse_dom(where, s['dom'], b - a)
            fields.append(Field(name, a, b - a, ('uint', dom)))
        elif shape == 'int' and sshape in ('int', 'int_clamped'):
            a, b = int(d['a']), int(d['b'])
            same((a, s['a']), (b, s['b']), (s['n'], b - a))
            fields.append(Field(name, a, b - a, ('int', sshape == 'int_clamped')))
        elif shape == 'real' and sshape == 'real':
            a, b = int(d['a']), int(d['b'])
            same((a, s['a']), (b, s['b']), (d['p'], s['p']), (b - a, 4 * int(d['p'])))
            fields.append(Field(name, a, b - a, ('real64',) if d['p'] == '2' else ('real32',)))
        elif shape == 'bit' and sshape == 'bit':
            if d['view'] != s['view'] or d['view'] not in views or s['loc'] != s['view']:
                fail(where, 'bit accessor: view mismatch', stext)
            vshape, va, vb = views[d['view']]
            if vshape not in ('view_lsb', 'view_msb'):
                fail(where, 'bit accessor over a raw view', stext)
            same((d['i'], s['i']), (va, s['a']), (vb, s['b']))
            if int(d['i']) >= 8 * (vb - va):
                fail(where, 'bit index outside its word')
            fields.append(Field(name, va + int(d['i']) // 8, 1,
                                ('bit', va, vb - va, int(d['i']), 'lsb' if vshape == 'view_lsb' else 'msb')))
        elif shape == 'bits' and sshape == 'bits':
            a, b = int(d['a']), int(d['b'])
            same((a, s['a']), (b, s['b']), (s['n'], 8 * (b - a)))
            fields.append(Field(name, a, b - a, ('bits', int(s['n']), list(range(int(s['n']))))))
        elif shape == 'bits' and sshape == 'bits_hmi':
            pos, total, sa, sb = parse_hmi(where, s['rest'])
            a, b = int(d['a']), int(d['b'])
            same((a, sa), (b, sb), (total, 8 * (b - a)), (s['n'], len(pos)))
            fields.append(Field(name, a, b - a, ('bits', len(pos), pos)))
        elif shape == 'version' and sshape == 'version':
            a, b = int(s['a']), int(s['b'])
            same((d['lo'], a), (d['hi'], a + 1), (b, a + 2))
            fields.append(Field(name, a, 2, ('version',)))
        elif shape == 'subuint' and sshape == 'subuint':
            if d['view'] != s['view'] or s['loc'] != s['view'] or views.get(d['view'], ('',))[0] != 'raw':
                fail(where, 'sub-field accessor: view mismatch', stext)
            _, va, vb = views[d['view']]
            a, b = int(d['a']), int(d['b'])
            same((a, s['a']), (b, s['b']), (s['n'], b - a), (va, s['pa']), (vb, s['pb']))
            if va + b > vb:
                fail(where, 'sub-field outside its view')
            fields.append(Field(name, va + a, b - a, ('uint', ('any',))))
        else:
            fail(where, 'getter shape %s does not go with setter shape %s' % (shape, sshape), stext)
    # no other writer of self.status[...] in this class
    for fn in cls.body:
        if isinstance(fn, ast.FunctionDef) and fn.name not in setters:
            stray_status_writes(fn, '%s.%s' % (where0, fn.name), allow_create=(fn.name == '__init__'))
    return size, fields


def stray_status_writes(node, where, allow_create=False):
    for st in ast.walk(node):
        targets = []
        if isinstance(st, ast.Assign):
            targets = st.targets
        elif isinstance(st, (ast.AugAssign, ast.AnnAssign)):
            targets = [st.target]
        for t in targets:
            for sub in ast.walk(t):
                txt = ast.unparse(sub)
                if isinstance(sub, ast.Subscript) and re.search(r'(^|\.)status$', ast.unparse(sub.value)):
                    fail(where, 'write to a status array outside a property setter', ast.unparse(st))
                if isinstance(sub, ast.Attribute) and sub.attr == 'status' and not allow_create:
                    fail(where, 'status array rebound', ast.unparse(st))
                del txt


def subclass_check(path):
    """MasterAxisStatus / SlaveAxisStatus: no property of their own, no direct status writes"""
    tree = ast.parse(open(path).read())
    seen = []
    for cls in tree.body:
        if isinstance(cls, ast.ClassDef) and cls.name != 'SimpleAxisStatus':
            seen.append(cls.name)
            if [ast.unparse(b) for b in cls.bases] != ['SimpleAxisStatus']:
                fail(path, 'unexpected base of ' + cls.name)
            for fn in cls.body:
                if isinstance(fn, ast.FunctionDef):
                    if fn.decorator_list:
                        fail(path, '%s.%s: decorated method in a subclass' % (cls.name, fn.name))
                    stray_status_writes(fn, '%s.%s' % (cls.name, fn.name))
    if sorted(seen) != ['MasterAxisStatus', 'SlaveAxisStatus']:
        fail(path, 'unexpected classes ' + str(seen))
    for node in tree.body:
        if isinstance(node, ast.FunctionDef):
            stray_status_writes(node, os.path.basename(path) + ':' + node.name)


# ---------------------------------------------------------------------------
# axis_status.update_status (limit / rate warning bits): recognised verbatim

UPDATE_STATUS_MASTER = '''if self.stow_pos:
    self.stowPosOk = float(self.p_Ist) / 1000000 in self.stow_pos
if self.p_Ist == int(round(self.min_pos * 1000000)):
    self.Pre_Limit_Dn = True
    self.Fin_Limit_Dn = False
elif self.p_Ist < int(round(self.min_pos * 1000000)):
    self.Pre_Limit_Dn = True
    self.Fin_Limit_Dn = True
else:
    self.Pre_Limit_Dn = False
    self.Fin_Limit_Dn = False
if self.p_Ist == int(round(self.max_pos * 1000000)):
    self.Pre_Limit_Up = True
    self.Fin_Limit_Up = False
elif self.p_Ist > int(round(self.max_pos * 1000000)):
    self.Pre_Limit_Up = True
    self.Fin_Limit_Up = True
else:
    self.Pre_Limit_Up = False
    self.Fin_Limit_Up = False
if abs(self.v_Ist) > int(round(self.max_velocity * 1000000)):
    self.Rate_Limit = True
else:
    self.Rate_Limit = False'''

UPDATE_STATUS_SLAVE = '''if self.master.axis_state == 3:
    brakes_open = []
    brakes_open += [True for __ in range(len(self.motor_status))]
    brakes_open += [False for __ in range(16 - len(self.motor_status))]
    self.brakes_open = brakes_open
else:
    self.brakes_open = [False for __ in range(16)]'''


def update_status_check(path):
    tree = ast.parse(open(path).read())
    for cname, want in (('MasterAxisStatus', UPDATE_STATUS_MASTER), ('SlaveAxisStatus', UPDATE_STATUS_SLAVE)):
        cls = [n for n in tree.body if isinstance(n, ast.ClassDef) and n.name == cname][0]
        fn = [f for f in cls.body if isinstance(f, ast.FunctionDef) and f.name == 'update_status']
        if len(fn) != 1:
            fail(path, cname + '.update_status not found')
        got = body_text(fn[0])
        if got != ast.unparse(ast.parse(want)):
            fail('%s:%s.update_status' % (os.path.basename(path), cname),
                 'body differs from the modelled one (Model/AlayModel.v update_status_*)', got)


# ---------------------------------------------------------------------------
# System.__init__, _update_status, _update_loop

def lit(node, where):
    try:
        return ast.literal_eval(node)
    except Exception:
        fail(where, 'not a literal', ast.unparse(node))


def as_microdeg(x, where):
    """int(round(x * 1000000)) as the code computes it"""
    if isinstance(x, bool) or not isinstance(x, (int, float)):
        fail(where, 'limit is not a number', repr(x))
    return int(round(x * 1000000))


def system_info(path):
    where = os.path.basename(os.path.dirname(path)) + '/__init__.py'
    tree = ast.parse(open(path).read())
    consts = {}
    for n in tree.body:
        if isinstance(n, ast.Assign) and isinstance(n.targets[0], ast.Name) \
                and n.targets[0].id in ('start_flag', 'end_flag'):
            consts[n.targets[0].id] = lit(n.value, where)
    if sorted(consts) != ['end_flag', 'start_flag']:
        fail(where, 'start_flag / end_flag not found')
    cls = [n for n in tree.body if isinstance(n, ast.ClassDef) and n.name == 'System']
    if len(cls) != 1:
        fail(where, 'class System not found')
    fns = {f.name: f for f in cls[0].body if isinstance(f, ast.FunctionDef)}
    init = fns.get('__init__')
    if init is None:
        fail(where, 'System.__init__ not found')
    info = dict(start=[ord(c) for c in consts['start_flag']], end=[ord(c) for c in consts['end_flag']])
    subs = {}
    order = []
    frame_writes = []
    for st in init.body:
        txt = ast.unparse(st)
        m = re.fullmatch(r'self\.(GS|AZ|EL|CW|PS|FS) = (\w+)\((.*)\)', txt, re.S)
        if m and isinstance(st, ast.Assign):
            call = st.value
            kw = {k.arg: k.value for k in call.keywords}
            if call.args and m.group(1) not in ('PS',):
                fail(where, 'positional constructor arguments', txt)
            subs[m.group(1)] = (m.group(2), kw, [ast.unparse(a) for a in call.args])
            continue
        m = re.fullmatch(r'self\.status = Array\(c_char, (\d+)\)', txt)
        if m:
            info['size'] = int(m.group(1))
            continue
        m = re.fullmatch(r'self\.status\[(.+)\] = (.+)', txt)
        if m:
            frame_writes.append((m.group(1), m.group(2)))
            continue
        m = re.fullmatch(r'statuses\.append\(self\.(\w+)\.status\)', txt)
        if m:
            order.append(('one', m.group(1)))
            continue
        m = re.fullmatch(r'for motor in self\.(\w+)\.motor_status:\n    statuses\.append\(motor\.status\)', txt)
        if m:
            order.append(('motors', m.group(1)))
            continue
        if re.match(r'statuses\b', txt) and txt != 'statuses = []':
            fail(where, 'unknown statement on the block list', txt)
    want_writes = [('0:4', "bytes(start_flag, 'latin-1')"), ('4:8', None), ('-4:', "bytes(end_flag, 'latin-1')")]
    if len(frame_writes) != 3 or any(fw[0] != w[0] or (w[1] and fw[1] != w[1])
                                     for fw, w in zip(frame_writes, want_writes)):
        fail(where, 'unknown frame header/trailer writes', str(frame_writes))
    m = re.fullmatch(r'utils\.uint_to_bytes\((\d+)\)', frame_writes[1][1])
    if not m:
        fail(where, 'unknown length-field write', frame_writes[1][1])
    info['length_field'] = int(m.group(1))
    if 'size' not in info:
        fail(where, 'frame array not found')
    # constructors
    want = dict(GS='GeneralStatus', AZ='MasterAxisStatus', EL='MasterAxisStatus', CW='SlaveAxisStatus',
                PS='PointingStatus', FS='FacilityStatus')
    if {k: v[0] for k, v in subs.items()} != want:
        fail(where, 'unexpected subsystem constructors', str({k: v[0] for k, v in subs.items()}))
    if subs['PS'][2] != ['self.AZ', 'self.EL', 'self.CW'] or subs['PS'][1]:
        fail(where, 'unexpected PointingStatus arguments')
    axes = {}
    for ax in ('AZ', 'EL'):
        kw = subs[ax][1]
        if not set(kw) <= {'n_motors', 'max_rates', 'op_range', 'start_pos', 'stow_pos'} or \
                not {'n_motors', 'max_rates', 'op_range', 'start_pos'} <= set(kw):
            fail(where, 'unexpected %s constructor keywords' % ax, str(sorted(kw)))
        n = lit(kw['n_motors'], where)
        rates = lit(kw['max_rates'], where)
        rng = lit(kw['op_range'], where)
        stow = lit(kw['stow_pos'], where) if 'stow_pos' in kw else None
        if not isinstance(n, int) or not isinstance(rates, tuple) or len(rates) != 2 \
                or not isinstance(rng, tuple) or len(rng) != 2 or not (stow is None or isinstance(stow, list)):
            fail(where, 'unexpected %s constructor values' % ax)
        if not all(isinstance(x, int) and not isinstance(x, bool) for x in list(rng) + list(stow or [])):
            fail(where, '%s: non-integer position limits / stow positions are not modelled' % ax)
        axes[ax] = dict(n_motors=n, lo=as_microdeg(rng[0], where), hi=as_microdeg(rng[1], where),
                        vmax=as_microdeg(rates[0], where), stow=[as_microdeg(x, where) for x in (stow or [])])
    kw = subs['CW'][1]
    if sorted(kw) != ['master', 'n_motors'] or ast.unparse(kw['master']) != 'self.AZ':
        fail(where, 'unexpected SlaveAxisStatus arguments')
    axes['CW'] = dict(n_motors=lit(kw['n_motors'], where), lo=axes['AZ']['lo'], hi=axes['AZ']['hi'],
                      vmax=0, stow=[])
    info['axes'] = axes
    if order != [('one', 'GS'), ('one', 'AZ'), ('one', 'EL'), ('one', 'CW'), ('motors', 'AZ'),
                 ('motors', 'EL'), ('motors', 'CW'), ('one', 'PS'), ('one', 'FS')]:
        fail(where, 'unexpected block order', str(order))
    info['order'] = order
    # _update_status
    us = fns.get('_update_status')
    want_us = ("payload = b''\nfor subsystem_status in statuses:\n    payload += subsystem_status.raw\n"
               "status[8:12] = utils.uint_to_bytes(utils.day_milliseconds())\nstatus[12:-4] = payload")
    if us is None or body_text(us) != want_us:
        fail(where, 'System._update_status differs from the modelled one', body_text(us) if us else '')
    # where _update_loop reads the clock from the frame
    ul = fns.get('_update_loop')
    m = re.search(r'now = utils\.bytes_to_real\(status\[(\d+):(\d+)\], precision=2\)', ast.unparse(ul) if ul else '')
    if not m:
        fail(where, '_update_loop: clock read from the frame not found')
    info['clock_read'] = (int(m.group(1)), int(m.group(2)))
    if 'q.put(status.raw)' not in ast.unparse(ul):
        fail(where, '_update_loop: publication `q.put(status.raw)` not found')
    # nobody else writes a status array in this module
    for name, fn in fns.items():
        if name not in ('__init__', '_update_status'):
            stray_status_writes(fn, where + ':' + name)
    return info


MOTOR_LIST = ("self.motor_status = []", "for __ in range(n_motors):\n    self.motor_status.append(MotorStatus())")


def motor_list_check(path):
    """SimpleAxisStatus.__init__ builds one fresh MotorStatus per motor (no aliasing): the two
    statements are recognised verbatim and nothing else touches self.motor_status"""
    tree = ast.parse(open(path).read())
    cls = [n for n in tree.body if isinstance(n, ast.ClassDef) and n.name == 'SimpleAxisStatus'][0]
    init = [f for f in cls.body if isinstance(f, ast.FunctionDef) and f.name == '__init__'][0]
    if [a.arg for a in init.args.args] != ['self', 'n_motors']:
        fail(path, 'SimpleAxisStatus.__init__ arguments')
    texts = [ast.unparse(st) for st in init.body]
    touching = [t for t in texts if 'motor_status' in t]
    if tuple(touching) != MOTOR_LIST:
        fail(os.path.basename(path) + ':SimpleAxisStatus.__init__',
             'the motor status list is not built as one fresh MotorStatus per motor', '\n'.join(touching))
    for node in ast.walk(tree):
        if isinstance(node, (ast.Assign, ast.AugAssign)):
            tg = node.targets if isinstance(node, ast.Assign) else [node.target]
            for t in tg:
                if 'motor_status' in ast.unparse(t) and ast.unparse(node) != MOTOR_LIST[0]:
                    fail(path, 'motor_status rebound or modified', ast.unparse(node))


def mode_codes(path):
    """keys of MasterAxisStatus.mode_commands: the documented mode-command codes"""
    tree = ast.parse(open(path).read())
    cls = [n for n in tree.body if isinstance(n, ast.ClassDef) and n.name == 'MasterAxisStatus'][0]
    for st in cls.body:
        if isinstance(st, ast.Assign) and ast.unparse(st.targets[0]) == 'mode_commands':
            d = lit(st.value, path)
            if not isinstance(d, dict) or not all(isinstance(k, int) and not isinstance(k, bool) and
                                                  isinstance(v, str) for k, v in d.items()):
                fail(path, 'mode_commands is not a literal {int: str} dictionary')
            if d.get(0) != '_ignore':
                fail(path, 'mode_commands[0] is not the ignore command')
            return sorted(d)
    fail(path, 'MasterAxisStatus.mode_commands not found')


def simple_axis_defaults(path):
    """SimpleAxisStatus.__init__: self.min_pos / self.max_pos defaults (ints)"""
    tree = ast.parse(open(path).read())
    cls = [n for n in tree.body if isinstance(n, ast.ClassDef) and n.name == 'SimpleAxisStatus'][0]
    init = [f for f in cls.body if isinstance(f, ast.FunctionDef) and f.name == '__init__'][0]
    out = {}
    for st in init.body:
        m = re.fullmatch(r'self\.(min_pos|max_pos) = (.+)', ast.unparse(st))
        if m:
            try:
                v = eval(compile(ast.Expression(st.value), '<lit>', 'eval'), {'__builtins__': {}})
            except Exception:
                fail(path, 'SimpleAxisStatus default limit is not a constant expression', ast.unparse(st))
            if not isinstance(v, int):
                fail(path, 'SimpleAxisStatus default limit is not an integer')
            out[m.group(1)] = v
    if sorted(out) != ['max_pos', 'min_pos']:
        fail(path, 'SimpleAxisStatus default limits not found')
    return out['min_pos'] * 1000000, out['max_pos'] * 1000000


# ---------------------------------------------------------------------------

def recover(repo):
    acu = os.path.join(repo, 'simulators', 'acu')
    tables = {}
    for fname, cname, tag in STATUS_MODULES:
        size, fields = class_fields(os.path.join(acu, fname), cname)
        tables[tag] = (size, fields)
    subclass_check(os.path.join(acu, 'axis_status.py'))
    update_status_check(os.path.join(acu, 'axis_status.py'))
    info = system_info(os.path.join(acu, '__init__.py'))
    info['axis_default'] = simple_axis_defaults(os.path.join(acu, 'axis_status.py'))
    motor_list_check(os.path.join(acu, 'axis_status.py'))
    info['mode_codes'] = mode_codes(os.path.join(acu, 'axis_status.py'))
    # acu_utils.py holds encoders only: no status writes
    for extra in ('acu_utils.py',):
        p = os.path.join(acu, extra)
        if os.path.exists(p):
            stray_status_writes(ast.parse(open(p).read()), extra)
    return tables, info


def table_text(tables, info, modname):
    out = []
    out.append('(* %s *)' % modname)
    out.append('From Coq Require Import String.')
    out.append('From DS Require Import Base.Prelude Model.AlayModel.')
    out.append('#[local] Open Scope string_scope.')
    for tag in ('gs', 'axis', 'motor', 'ps', 'fs'):
        size, fields = tables[tag]
        out.append('Definition %s_size : nat := %d.' % (tag, size))
        out.append('Definition %s_table : list field := [' % tag)
        out.append(';\n'.join('  ' + f.coq() for f in fields))
        out.append('].')
    out.append('Definition frame_size : nat := %d.' % info['size'])
    out.append('Definition start_flag : list Z := %s.' % zl(info['start']))
    out.append('Definition end_flag : list Z := %s.' % zl(info['end']))
    out.append('Definition length_field : Z := %d.' % info['length_field'])
    for ax in ('AZ', 'EL', 'CW'):
        a = info['axes'][ax]
        out.append('Definition env_%s : axis_env := {| pos_lo := %s; pos_hi := %s; v_max := %s; '
                   'stow_pos := %s; n_motors := %d |}.'
                   % (ax, zl([a['lo']])[1:-1], zl([a['hi']])[1:-1], zl([a['vmax']])[1:-1], zl(a['stow']),
                      a['n_motors']))
    lo, hi = info['axis_default']
    out.append('Definition env_default : axis_env := {| pos_lo := %s; pos_hi := %s; v_max := 0; '
               'stow_pos := []; n_motors := 1 |}.' % (zl([lo])[1:-1], zl([hi])[1:-1]))
    out.append('Definition block_order : list block_id := [BGS; BAZ; BEL; BCW; BMotors BAZ; BMotors BEL; '
               'BMotors BCW; BPS; BFS].')
    out.append('Definition clock_read : nat * nat := (%d, %d)%%nat.' % info['clock_read'])
    out.append('Definition mode_codes : list Z := %s.' % zl(info['mode_codes']))
    return '\n'.join(out) + '\n'


# ---------------------------------------------------------------------------
# evaluated constants: the initial blocks of a real System under a frozen clock

FROZEN = (2026, 3, 14, 15, 9, 26, 535897)


class frozen_clock:
    """replace `datetime` in the ACU modules (and utils) by a subclass whose utcnow() is constant"""

    def __enter__(self):
        import datetime as _dt
        import simulators.utils as U
        import simulators.acu as A
        import simulators.acu.pointing_status as P

        class FrozenDT(_dt.datetime):
            @classmethod
            def utcnow(cls):
                return cls(*FROZEN)
        self.saved = [(m, m.datetime) for m in (U, A, P)]
        for m, _ in self.saved:
            m.datetime = FrozenDT
        return self

    def __exit__(self, *a):
        for m, old in self.saved:
            m.datetime = old


def stopped_system():
    """a real System whose update thread has been stopped (call under frozen_clock)"""
    import simulators.acu as A
    s = A.System()
    s.stop.value = True
    s.update_thread.join()
    return s


def system_blocks(s):
    bl = [('GS', s.GS), ('AZ', s.AZ), ('EL', s.EL), ('CW', s.CW)]
    for ax in ('AZ', 'EL', 'CW'):
        for i, m in enumerate(getattr(s, ax).motor_status):
            bl.append(('%s_M%d' % (ax, i), m))
    bl += [('PS', s.PS), ('FS', s.FS)]
    return bl


def init_text():
    with frozen_clock():
        s = stopped_system()
        raws = [(n, list(o.status.raw)) for n, o in system_blocks(s)]
        frame = list(s.status.raw)
    out = ['(* initial blocks of a real System constructed under a frozen clock (evaluated) *)']
    out.append('Definition init_blocks : list (list Z) := [')
    out.append(';\n'.join('  (* %s *) %s' % (n, zl(r)) for n, r in raws))
    out.append('].')
    out.append('Definition init_frame : list Z := %s.' % zl(frame))
    return '\n'.join(out) + '\n'
