#!/bin/sh
# Build the whole Coq development from clean (full .vo), offline.
HERE="$(cd "$(dirname "$0")" && pwd)"
cd "$HERE" || exit 1
mkdir -p .work evidence replays coq/Gen
# a fresh restore has no build output (it is git-ignored); SETUP_CLEAN=1 forces a clean rebuild
if [ -n "$SETUP_CLEAN" ]; then find coq -name '*.vo' -o -name '*.vok' -o -name '*.vos' -o -name '*.glob' -o -name '.*.aux' | xargs rm -f; fi
export VERIF_REPO="${VERIF_REPO:-/repo}" PYTHONPATH="${VERIF_REPO:-/repo}" PYTHONHASHSEED=0 PYTHONDONTWRITEBYTECODE=1
mkdir -p .work/acsdata; export ACSDATA="$HERE/.work/acsdata"
/venv/bin/python - <<'PY'
import sys, os, importlib, glob
sys.path.insert(0, os.getcwd())
from vlib import core
core.use_repo()
# regenerate the Gen tables and build the Coq targets of every claimed property
claimed = open('tools/claimed.txt').read().split()
targets = []
for pid in claimed:
    m = importlib.import_module('props.' + pid.lower())
    ctx = core.Ctx(m, 'quick', 0, core.load_parts(pid.lower()))
    ctx.run_gen()
    if ctx.broken:
        print('gen problems for', pid, ctx.broken)
    for t in ctx.coq_targets():
        if t not in targets:
            targets.append(t)
print('targets:', ' '.join(targets))
rc, out = core.coq_make(['-k'] + targets, timeout=3400)
print(out[-3000:])
sys.exit(rc)
PY
