#!/bin/sh
# Build the whole Coq development from clean (full .vo), offline.
HERE="$(cd "$(dirname "$0")" && pwd)"
cd "$HERE" || exit 1
mkdir -p .work evidence replays coq/Gen
find coq -name '*.vo' -o -name '*.vok' -o -name '*.vos' -o -name '*.glob' -o -name '.*.aux' | xargs rm -f
export VERIF_REPO="${VERIF_REPO:-/repo}" PYTHONPATH="${VERIF_REPO:-/repo}" PYTHONHASHSEED=0 PYTHONDONTWRITEBYTECODE=1
mkdir -p .work/acsdata; export ACSDATA="$HERE/.work/acsdata"
/venv/bin/python - <<'PY'
import sys, os, importlib, glob
sys.path.insert(0, os.getcwd())
from vlib import core
core.use_repo()
# regenerate Gen tables of every property that has a translator
for p in sorted(glob.glob('props/c*.py')):
    m = importlib.import_module('props.' + os.path.basename(p)[:-3])
    g = getattr(m, 'gen', None)
    if g:
        try:
            g(core.Ctx(m, 'quick', 0))
        except Exception as ex:
            print('gen failed for', p, ex)
rc, out = core.coq_make(['all'], timeout=3400)
print(out[-3000:])
sys.exit(rc)
PY
