#!/bin/sh
# development helper: ./mk Proofs/Foo.vo ...   (regenerates _CoqProject/Makefile, then make under the lock)
HERE="$(cd "$(dirname "$0")" && pwd)"
cd "$HERE" && exec /venv/bin/python -c '
import sys; sys.path.insert(0, "'"$HERE"'")
from vlib import core
rc, out = core.coq_make(sys.argv[1:] or ["all"], timeout=3000)
print(out[-6000:]); sys.exit(rc)' "$@"
